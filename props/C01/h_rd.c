/* C01 harness 1b: the reader accessors of ONE width over arbitrary bytes (cell: -DBITS = 8|16|24|32|48|64).
 * Symbolic: WHICH accessor of that width (u/s/f x b/l), 10 buffer bytes, cursor 0..2, advance flag. An independent decoder
 * (dec_bytes + extend, c01.h) must read the same value: big/little-endian composition of exactly BITS/8 bytes at the
 * cursor, two's-complement sign extension from bit BITS-1 for the signed forms (so s24/s48 extend into the full
 * int32/int64), float forms compared as bit patterns. */
#include "c01.h"
#define NB (BITS / 8)
void harness(void) {
  uint32_t which = (uint32_t)in_range(0, 47);
  ASSUME(RD_BITS[which] == BITS);
  const int big = RD_BIG[which], kind = RD_KIND[which];
  uint8_t buf[10];
  in_bytes(buf, 10);
  uint64_t cur = in_range(0, 2);
  uint32_t adv = in_bool();
  uint64_t val = 0, val2 = 0, where = 0;
  int64_t rc = w_sr_get(which, buf, 10, cur, adv, &val, &where);
  OBS(which); OBS(rc); OBS(val); OBS(where);
  uint64_t ref = extend(dec_bytes(buf + cur, NB, big), BITS, kind == 1);
  ASSERT(rc == 0, "read inside the buffer succeeds");
  ASSERT(val == ref, "get_X == independent big/little-endian decode (+ sign extension) of the bytes at the cursor");
  ASSERT(where == (adv ? cur + NB : cur), "cursor advances by exactly the encoded width");
  rc = w_sr_pget(which, buf, 10, cur, &val2);
  ASSERT(rc == 0 && val2 == ref, "pget_X == the same decode at the given offset");
}
