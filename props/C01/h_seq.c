/* C01 harness 3: short sequences of appending and positional writes, read back in the same order.
 * Cell: the operation kinds -DK0 -DK1 -DK2 -DK3 (-1 = no operation):
 *   0 put_u8  1 put_u16b  2 put_u32l  3 put_u64b  4 put_f32l  8 put_s16l  9 put_f64b
 *   5 write(ptr,len) raw block, len symbolic 0..3      10 write(std::string) raw block, read back with readx
 *   6 C string: len symbolic 0..3 non-NUL chars + NUL  (read back with get_cstr)
 *   7 pput_u16l at an offset in [0, current size + 2] (may overwrite earlier bytes, straddle or lie past the end): symbolic
 *     when -DPO is -1/undefined, else the cell PO: 0 offset 0, 1 size-1 (straddle), 2 size (at the end), 3 size+2 (gap), 4 size-2
 * Symbolic: every value / block byte / length / offset. The harness keeps an independent byte-array model of the buffer;
 * after the writes str() must equal the model exactly; then the values are read back with the matching getters in order
 * (the reader is repositioned with go() only where a positional write moved the end of the buffer): every value read equals
 * the model decoded at that position - which is the value written unless a positional write overwrote it -, every read
 * advances the cursor by exactly its encoded width, and eof() holds at the end iff the cursor reached the end. */
#include "c01.h"
#define MAXLEN 40
static const int KINDS[4] = {K0, K1, K2, K3};
static unsigned width_of(int kind) { return kind == 0 ? 1 : (kind == 1 || kind == 8 || kind == 7) ? 2 : (kind == 2 || kind == 4) ? 4 : 8; }
static int big_of(int kind) { return kind == 1 || kind == 3 || kind == 9; }
void harness(void) {
  uint32_t kind[4]; uint64_t val[4], aux[4], go[4], rd[4], pos[4];
  uint64_t start[4], len[4];
  uint8_t model[MAXLEN], out[MAXLEN];
  uint64_t mlen = 0; uint32_t k = 0;
  int moved = 0; /* the end of the buffer was moved by a positional write since the last appended value */
  for (int i = 0; i < MAXLEN; i++) { model[i] = 0; out[i] = 0xC3; }
  for (int i = 0; i < 4; i++) {
    if (KINDS[i] < 0) continue;
    const int kd = KINDS[i];
    kind[k] = (uint32_t)kd; val[k] = in_u64(); aux[k] = 0; go[k] = ~0ULL; rd[k] = 0; pos[k] = 0;
    if (kd == 5 || kd == 10 || kd == 6) {
      aux[k] = in_range(0, 3);
      if (kd == 6) for (unsigned j = 0; j < 3; j++) if (j < aux[k]) ASSUME(((val[k] >> (8 * j)) & 0xFF) != 0);
      start[k] = mlen; len[k] = aux[k] + (kd == 6 ? 1 : 0);
      for (unsigned j = 0; j < 3; j++) if (j < aux[k]) model[mlen + j] = (uint8_t)(val[k] >> (8 * j));
      if (kd == 6) model[mlen + aux[k]] = 0;
      val[k] &= (aux[k] == 0) ? 0 : ((1ULL << (8 * aux[k])) - 1);
      if (moved) go[k] = mlen;
      moved = 0;
      mlen += len[k];
    } else if (kd == 7) {
#if !defined(PO) || PO < 0
      aux[k] = in_range(0, mlen + 2);
#elif PO == 0
      aux[k] = 0;
#elif PO == 1
      aux[k] = mlen >= 1 ? mlen - 1 : 0; /* straddles the end */
#elif PO == 2
      aux[k] = mlen;                     /* starts exactly at the end */
#elif PO == 3
      aux[k] = mlen + 2;                 /* leaves a 2-byte gap */
#else
      aux[k] = mlen >= 2 ? mlen - 2 : 0; /* overwrites the tail */
#endif
      start[k] = aux[k]; len[k] = 2;
      /* keep C strings intact: the reference reader below does not model a positional write that destroys a terminator */
      for (uint32_t q = 0; q < k; q++) if (kind[q] == 6) ASSUME(aux[k] + 2 <= start[q] || aux[k] >= start[q] + len[q]);
      if (aux[k] + 2 > mlen) { /* zero-extension up to the offset, then the value */
        for (uint64_t j = 0; j < MAXLEN; j++) if (j >= mlen && j < aux[k]) model[j] = 0;
        mlen = aux[k] + 2;
        moved = 1;
      }
      model[aux[k]] = (uint8_t)val[k]; model[aux[k] + 1] = (uint8_t)(val[k] >> 8);
    } else {
      const unsigned w = width_of(kd);
      start[k] = mlen; len[k] = w;
      for (unsigned j = 0; j < 8; j++) if (j < w) model[mlen + j] = enc_byte(val[k], w, big_of(kd), j);
      if (moved) go[k] = mlen;
      moved = 0;
      mlen += w;
    }
    k++;
  }
  uint8_t eof = 0;
  int64_t n = w_seq(k, kind, val, aux, go, out, MAXLEN, rd, pos, &eof);
  OBS(n);
  ASSERT(n == (int64_t)mlen, "str() has exactly the modelled length");
  if (n != (int64_t)mlen) return;
  for (uint64_t i = 0; i < MAXLEN; i++) if (i < mlen) { OBS(out[i]); ASSERT(out[i] == model[i], "str() equals the byte-array model (encodings in order, zero-filled gaps, overwrites in place)"); }
  uint64_t cursor = 0;
  int any_pput = 0;
  for (uint32_t i = 0; i < 4; i++) if (i < k && kind[i] == 7) any_pput = 1;
  for (uint32_t i = 0; i < 4; i++) {
    if (i >= k) continue;
    const int kd = (int)kind[i];
    OBS(rd[i]); OBS(pos[i]);
    if (go[i] != ~0ULL) cursor = go[i];
    if (kd == 7) {
      ASSERT(rd[i] == dec_bytes(model + aux[i], 2, 0), "pget_u16l at the offset decodes the model bytes there");
      ASSERT(pos[i] == cursor, "positional reads do not move the cursor");
      continue;
    }
    ASSERT(cursor == start[i], "the sequential cursor is at the start of this value");
    if (kd == 5 || kd == 10) {
      ASSERT(rd[i] == dec_bytes(model + cursor, (unsigned)aux[i], 0), "raw block read back byte for byte");
      if (!any_pput) ASSERT(rd[i] == val[i], "raw block equals what was written");
    } else if (kd == 6) {
      ASSERT((rd[i] >> 32) == aux[i], "get_cstr returns the characters up to the NUL");
      ASSERT((rd[i] & 0xFFFFFFFF) == dec_bytes(model + cursor, (unsigned)aux[i], 0), "C string characters read back unchanged");
    } else {
      const unsigned w = width_of(kd);
      uint64_t expect = extend(dec_bytes(model + cursor, w, big_of(kd)), 8 * w, kd == 8);
      ASSERT(rd[i] == expect, "value read back == independent decode of the model at the cursor");
      if (!any_pput) ASSERT(rd[i] == extend(val[i], 8 * w, kd == 8), "value read back == value written");
    }
    cursor += len[i];
    ASSERT(pos[i] == cursor, "each read advances the cursor by exactly the encoded width");
  }
  ASSERT((eof != 0) == (cursor >= mlen), "eof() iff the cursor reached the end of the data");
  if (!any_pput) ASSERT(eof != 0 && cursor == mlen, "reading everything back consumes the buffer exactly");
}
