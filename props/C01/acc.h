/* Accessor table shared by wrap.cc (C++) and the harnesses (C).  X(index, suffix, ctype, bits, kind, order)
 *   kind : 0 unsigned int, 1 signed int, 2 IEEE float (value crosses the C ABI as its bit pattern)
 *   order: 0 host order (little-endian on the verified x86-64 configuration), 1 'l' little, 2 'b' big, 3 'r' reverse of host (= big)
 * Writer accessors (StringWriter and BufferWriter: put_<sfx>, pput_<sfx>) exist for every row; reader accessors
 * (StringReader: get_<sfx>, pget_<sfx>) exist for the rows listed in READER_ACCESSORS. */
#ifndef C01_ACC_H
#define C01_ACC_H
#define WRITER_ACCESSORS(X) \
  X(0, u8, uint8_t, 8, 0, 0)    X(1, s8, int8_t, 8, 1, 0) \
  X(2, u16, uint16_t, 16, 0, 0) X(3, s16, int16_t, 16, 1, 0) X(4, u32, uint32_t, 32, 0, 0) X(5, s32, int32_t, 32, 1, 0) \
  X(6, u64, uint64_t, 64, 0, 0) X(7, s64, int64_t, 64, 1, 0) X(8, f32, float, 32, 2, 0)    X(9, f64, double, 64, 2, 0) \
  X(10, u16r, uint16_t, 16, 0, 3) X(11, s16r, int16_t, 16, 1, 3) X(12, u32r, uint32_t, 32, 0, 3) X(13, s32r, int32_t, 32, 1, 3) \
  X(14, u64r, uint64_t, 64, 0, 3) X(15, s64r, int64_t, 64, 1, 3) X(16, f32r, float, 32, 2, 3)    X(17, f64r, double, 64, 2, 3) \
  X(18, u16b, uint16_t, 16, 0, 2) X(19, s16b, int16_t, 16, 1, 2) X(20, u32b, uint32_t, 32, 0, 2) X(21, s32b, int32_t, 32, 1, 2) \
  X(22, u64b, uint64_t, 64, 0, 2) X(23, s64b, int64_t, 64, 1, 2) X(24, f32b, float, 32, 2, 2)    X(25, f64b, double, 64, 2, 2) \
  X(26, u16l, uint16_t, 16, 0, 1) X(27, s16l, int16_t, 16, 1, 1) X(28, u32l, uint32_t, 32, 0, 1) X(29, s32l, int32_t, 32, 1, 1) \
  X(30, u64l, uint64_t, 64, 0, 1) X(31, s64l, int64_t, 64, 1, 1) X(32, f32l, float, 32, 2, 1)    X(33, f64l, double, 64, 2, 1)
/* reader accessors: the writer rows that also exist on StringReader (same index), plus the read-only 24/48-bit ones */
#define READER_ACCESSORS(X) \
  X(0, u8, uint8_t, 8, 0, 0)    X(1, s8, int8_t, 8, 1, 0) \
  X(18, u16b, uint16_t, 16, 0, 2) X(19, s16b, int16_t, 16, 1, 2) X(20, u32b, uint32_t, 32, 0, 2) X(21, s32b, int32_t, 32, 1, 2) \
  X(22, u64b, uint64_t, 64, 0, 2) X(23, s64b, int64_t, 64, 1, 2) X(24, f32b, float, 32, 2, 2)    X(25, f64b, double, 64, 2, 2) \
  X(26, u16l, uint16_t, 16, 0, 1) X(27, s16l, int16_t, 16, 1, 1) X(28, u32l, uint32_t, 32, 0, 1) X(29, s32l, int32_t, 32, 1, 1) \
  X(30, u64l, uint64_t, 64, 0, 1) X(31, s64l, int64_t, 64, 1, 1) X(32, f32l, float, 32, 2, 1)    X(33, f64l, double, 64, 2, 1) \
  X(40, u24b, uint32_t, 24, 0, 2) X(41, u24l, uint32_t, 24, 0, 1) X(42, s24b, int32_t, 24, 1, 2) X(43, s24l, int32_t, 24, 1, 1) \
  X(44, u48b, uint64_t, 48, 0, 2) X(45, u48l, uint64_t, 48, 0, 1) X(46, s48b, int64_t, 48, 1, 2) X(47, s48l, int64_t, 48, 1, 1)
#endif
