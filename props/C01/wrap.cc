// C01 wrappers: StringWriter / BufferWriter typed puts, StringReader typed gets, BitWriter / BitReader, short sequences.
// Values cross the C ABI as 64-bit patterns: unsigned zero-extended, signed SIGN-extended from the accessor's C++ return
// type (so the sign-extending 24/48-bit forms are observable), floats as IEEE bit patterns.
#include "wrap.hh"
#include "Strings.cc"
#include "acc.h"
using namespace phosg;

template <typename T>
static inline T from_bits(uint64_t b) {
  if constexpr (std::is_same_v<T, float>) {
    uint32_t x = static_cast<uint32_t>(b);
    float f;
    memcpy(&f, &x, 4);
    return f;
  } else if constexpr (std::is_same_v<T, double>) {
    double f;
    memcpy(&f, &b, 8);
    return f;
  } else {
    return static_cast<T>(b);
  }
}
template <typename T>
static inline uint64_t to_bits(T v) {
  if constexpr (std::is_same_v<T, float>) {
    uint32_t x;
    memcpy(&x, &v, 4);
    return x;
  } else if constexpr (std::is_same_v<T, double>) {
    uint64_t x;
    memcpy(&x, &v, 8);
    return x;
  } else if constexpr (std::is_signed_v<T>) {
    return static_cast<uint64_t>(static_cast<int64_t>(v)); // sign-extended
  } else {
    return static_cast<uint64_t>(v);
  }
}

template <typename WriterT>
static inline bool put_by_index(WriterT& w, uint32_t which, uint64_t v) {
  switch (which) {
#define X(i, sfx, T, bits, kind, order) case i: w.put_##sfx(from_bits<T>(v)); return true;
    WRITER_ACCESSORS(X)
#undef X
    default: return false;
  }
}
template <typename WriterT>
static inline bool pput_by_index(WriterT& w, uint32_t which, size_t off, uint64_t v) {
  switch (which) {
#define X(i, sfx, T, bits, kind, order) case i: w.pput_##sfx(off, from_bits<T>(v)); return true;
    WRITER_ACCESSORS(X)
#undef X
    default: return false;
  }
}
static inline bool get_by_index(StringReader& r, uint32_t which, bool adv, uint64_t* val) {
  switch (which) {
#define X(i, sfx, T, bits, kind, order) case i: *val = to_bits<T>(r.get_##sfx(adv)); return true;
    READER_ACCESSORS(X)
#undef X
    default: return false;
  }
}
static inline bool pget_by_index(const StringReader& r, uint32_t which, size_t off, uint64_t* val) {
  switch (which) {
#define X(i, sfx, T, bits, kind, order) case i: *val = to_bits<T>(r.pget_##sfx(off)); return true;
    READER_ACCESSORS(X)
#undef X
    default: return false;
  }
}

// ---- single accessor, append form: `pre` filler bytes first (so the value does not sit at offset 0), then put ----
WEXPORT int64_t w_sw_put(uint32_t which, uint32_t pre, uint64_t v, uint8_t* out, size_t cap) {
  try {
    StringWriter w;
    for (uint32_t i = 0; i < pre; i++) w.put_u8(0xEE);
    if (!put_by_index(w, which, v)) return W_CAPACITY;
    if (w.size() != w.str().size()) return W_CAPACITY;
    return w_copy_out(w.str(), out, cap);
  }
  W_CATCH_ALL
}
WEXPORT int64_t w_bw_put(uint32_t which, uint32_t pre, uint64_t v, uint8_t* buf, size_t cap) {
  try {
    BufferWriter w(buf, cap);
    for (uint32_t i = 0; i < pre; i++) w.put_u8(0xEE);
    if (!put_by_index(w, which, v)) return W_CAPACITY;
    return 0;
  }
  W_CATCH_ALL
}
WEXPORT int64_t w_bw_pput(uint32_t which, size_t off, uint64_t v, uint8_t* buf, size_t cap) {
  try {
    BufferWriter w(buf, cap);
    if (!pput_by_index(w, which, off, v)) return W_CAPACITY;
    return 0;
  }
  W_CATCH_ALL
}
// positional put into a StringWriter holding init[0..n)
WEXPORT int64_t w_sw_pput(uint32_t which, const uint8_t* init, size_t n, size_t off, uint64_t v, uint8_t* out, size_t cap) {
  try {
    StringWriter w;
    w.write(init, n);
    if (!pput_by_index(w, which, off, v)) return W_CAPACITY;
    return w_copy_out(w.str(), out, cap);
  }
  W_CATCH_ALL
}
// reader accessors over caller bytes
WEXPORT int64_t w_sr_get(uint32_t which, const uint8_t* buf, size_t n, size_t cur, uint32_t adv, uint64_t* val, uint64_t* where) {
  try {
    StringReader r(buf, n, cur);
    if (!get_by_index(r, which, adv, val)) return W_CAPACITY;
    *where = r.where();
    return 0;
  }
  W_CATCH_ALL
}
WEXPORT int64_t w_sr_pget(uint32_t which, const uint8_t* buf, size_t n, size_t off, uint64_t* val) {
  try {
    StringReader r(buf, n);
    if (!pget_by_index(r, which, off, val)) return W_CAPACITY;
    return 0;
  }
  W_CATCH_ALL
}

// ---- sequences: up to 4 writer operations, then the matching reads in the same order ----
// kind: 0 put_u8, 1 put_u16b, 2 put_u32l, 3 put_u64b, 4 put_f32l, 5 write(block, len<=3), 6 C string (<=3 chars) + NUL via write(),
//       7 pput_u16l at offset `aux` (does not append), 8 put_s16l, 9 put_f64b, 10 write(std::string) block, -1/other: nothing
// per op: val[i] (value, or block bytes packed little-endian), aux[i] (block length / pput offset)
// go[i] != ~0: the reader is repositioned with go(go[i]) before read i (after a positional write grew the buffer, the
// bytes appended next do not follow the previous appended value). Kind 7 is read back positionally (pget_u16l(aux)).
// outputs: str bytes; rd[i] value read back (blocks packed the same way), pos[i] = where() after read i, *eof at the end
static const uint32_t SEQ_ACC[] = {0, 18, 28, 22, 32, 0, 0, 26, 27, 25};
WEXPORT int64_t w_seq(uint32_t k, const uint32_t* kind, const uint64_t* val, const uint64_t* aux, const uint64_t* go, uint8_t* out, size_t cap,
    uint64_t* rd, uint64_t* pos, uint8_t* eof) {
  try {
    StringWriter w;
    for (uint32_t i = 0; i < k; i++) {
      uint8_t blk[4] = {static_cast<uint8_t>(val[i]), static_cast<uint8_t>(val[i] >> 8), static_cast<uint8_t>(val[i] >> 16), 0};
      switch (kind[i]) {
        case 0: case 1: case 2: case 3: case 4: case 8: case 9: put_by_index(w, SEQ_ACC[kind[i]], val[i]); break;
        case 5: w.write(blk, aux[i]); break;
        case 6: blk[aux[i]] = 0; w.write(blk, aux[i] + 1); break;
        case 7: pput_by_index(w, SEQ_ACC[7], aux[i], val[i]); break;
        case 10: w.write(std::string(reinterpret_cast<const char*>(blk), aux[i])); break;
        default: break;
      }
    }
    int64_t n = w_copy_out(w.str(), out, cap);
    if (n < 0) return n;
    StringReader r(w.str());
    for (uint32_t i = 0; i < k; i++) {
      rd[i] = 0;
      if (go[i] != ~0ULL) r.go(go[i]);
      switch (kind[i]) {
        case 0: case 1: case 2: case 3: case 4: case 8: case 9: get_by_index(r, SEQ_ACC[kind[i]], true, &rd[i]); break;
        case 7: pget_by_index(r, SEQ_ACC[7], aux[i], &rd[i]); break;
        case 5: case 10: {
          std::string s = (kind[i] == 5) ? r.read(aux[i]) : r.readx(aux[i]);
          if (s.size() != aux[i]) return W_CAPACITY;
          for (size_t j = 0; j < s.size(); j++) rd[i] |= static_cast<uint64_t>(static_cast<uint8_t>(s[j])) << (8 * j);
          break;
        }
        case 6: {
          std::string s = r.get_cstr();
          if (s.size() > 3) return W_CAPACITY;
          rd[i] = static_cast<uint64_t>(s.size()) << 32;
          for (size_t j = 0; j < s.size(); j++) rd[i] |= static_cast<uint64_t>(static_cast<uint8_t>(s[j])) << (8 * j);
          break;
        }
        default: break;
      }
      pos[i] = r.where();
    }
    *eof = r.eof();
    return n;
  }
  W_CATCH_ALL
}

// ---- bits ----
// write m bits (bit i = (bits >> i) & 1, in that order), optionally truncate(t) (t == ~0: no truncate); out = str(), *size = size()
WEXPORT int64_t w_bitwriter(uint64_t bits, uint32_t m, uint64_t t, uint8_t* out, size_t cap, uint64_t* size) {
  try {
    BitWriter w;
    for (uint32_t i = 0; i < m; i++) w.write((bits >> i) & 1);
    if (t != ~0ULL) w.truncate(t);
    *size = w.size();
    return w_copy_out(w.str(), out, cap);
  }
  W_CATCH_ALL
}
// truncate then keep writing: m bits, truncate(t), m2 more bits
WEXPORT int64_t w_bitwriter2(uint64_t bits, uint32_t m, uint64_t t, uint64_t bits2, uint32_t m2, uint8_t* out, size_t cap, uint64_t* size) {
  try {
    BitWriter w;
    for (uint32_t i = 0; i < m; i++) w.write((bits >> i) & 1);
    w.truncate(t);
    for (uint32_t i = 0; i < m2; i++) w.write((bits2 >> i) & 1);
    *size = w.size();
    return w_copy_out(w.str(), out, cap);
  }
  W_CATCH_ALL
}
// reader over nbits bits of buf: go(start); two sequential read(size1), read(size2, adv2); reports values and cursor
WEXPORT int64_t w_bitreader(const uint8_t* buf, size_t nbits, size_t start, uint32_t size1, uint32_t size2, uint32_t adv2,
    uint64_t* v1, uint64_t* v2, uint64_t* where, uint64_t* remaining, uint8_t* eof) {
  try {
    BitReader r(buf, nbits);
    r.go(start);
    *v1 = r.read(size1);
    *v2 = r.read(size2, adv2);
    *where = r.where();
    *remaining = r.remaining();
    *eof = r.eof();
    return static_cast<int64_t>(r.size());
  }
  W_CATCH_ALL
}
WEXPORT int64_t w_bitreader_pread(const uint8_t* buf, size_t nbits, size_t off, uint32_t size, uint64_t* v) {
  try {
    BitReader r(buf, nbits);
    *v = r.pread(off, size);
    return 0;
  }
  W_CATCH_ALL
}
// writer -> reader round trip: m bits written, read back one at a time
WEXPORT int64_t w_bit_roundtrip(uint64_t bits, uint32_t m, uint64_t* back) {
  try {
    BitWriter w;
    for (uint32_t i = 0; i < m; i++) w.write((bits >> i) & 1);
    BitReader r(w.str());
    if (r.size() != w.str().size() * 8) return W_CAPACITY;
    uint64_t b = 0;
    for (uint32_t i = 0; i < m; i++) b |= r.read(1) << i;
    *back = b;
    return static_cast<int64_t>(r.where());
  }
  W_CATCH_ALL
}
