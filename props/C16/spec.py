ID = 'C16'
UNITS = {'launch': dict(wrap='wrap.cc', shim=True, new_block=96, cxxflags=['-fno-inline', '-DC16_LAUNCH_ONLY', '-DVERIF_RACE_HOOK'],
                        gen_defs=['VERIF_ATOMIC_HOOK', 'VERIF_NEW_U64']),
         'tools': dict(wrap='wrap.cc', new_block=96, per_harness={'h_workers.c': {'gen_defs': ['VERIF_SEQ']}})}
BOUNDS = ('h_workers: T in {2,3} worker threads, range length 0..4, block size 1..2, at most ROUNDS-1 context switches per thread. '
          'h_launch: T in 1..3 threads, range 0..4, block size symbolic in [1,4] or fixed; schedules: K1 = workers run to completion in '
          'creation order, K2 = every interleaving of the atomic operations of workers and launcher with at most one context switch '
          'per thread, "race" cells = the one schedule in which every worker claims exactly one block before any callback runs; '
          'unordered_set shim capacity 4; at most 4 threads / 6 set objects / 2 atomic words tracked by the model (exceeding = reported)')
STUBS = ['callback = harness function recording (value, thread) and returning a symbolic truth bit',
         'atomics: sequentially consistent, bounded-round sequentialisation (h_workers: engine/rt/rt_model.c verif_atomic_addr; h_launch: the same scheme in the harness, shared words found by address)',
         'std::thread::_M_start_thread (h_launch.c): thread becomes joinable, the _State is taken from the unique_ptr, its virtual _M_run() (vtable slot 2) runs at creation, then the state is destroyed through its deleting destructor (slot 1); the std::thread constructor template itself is real libstdc++ code',
         'std::thread::join (h_launch.c): clears the id, counts; joining a non-joinable thread is a failure. std::thread::~thread / std::terminate are the real code / a failure',
         'std::thread::_State::~_State (empty), std::thread::hardware_concurrency = 2, phosg::now = 0, usleep = no-op (progress function is nullptr, not reached)',
         'std::unordered_set = engine/shim/unordered_set (fixed capacity 4) with -DVERIF_RACE_HOOK: every access is reported to the harness (data race check)']
OUTSIDE = ['more than 3 threads / 4 values', 'relaxed memory (code uses seq_cst only)',
           'h_launch K2 cells: more than one context switch per thread; race cells: any schedule but the stated one',
           'data races on objects other than std::unordered_set results (the callback\'s own state is the caller\'s)',
           'detach()-style escapes, hardware_concurrency() default, the progress function (nullptr here)']
ASSUMPTIONS = ['sequential consistency of std::atomic<uint64_t> default operations',
               'Itanium C++ ABI vtable layout of std::thread::_State (complete dtor, deleting dtor, _M_run) - checked against the IR at the pinned libstdc++',
               'operator-new blocks are typed as 64-bit words for CBMC (VERIF_NEW_U64; same memory)',
               'native replay of a data race: ThreadSanitizer build of the real code with all workers released from a barrier at once']


def queries(tier):
    qs = []
    cells = []
    if tier == 'quick':
        cells = [(2, 0, 0, 1, 3), (2, 2, 0, 1, 4), (2, 3, 0, 1, 4), (2, 2, 1, 2, 4), (2, 2, 1, 1, 4), (2, 4, 1, 2, 4), (3, 2, 0, 1, 3), (3, 3, 0, 1, 3)]
    else:
        for T in (2, 3):
            for R in range(0, 5):
                K = (5 if R <= 3 else 4) if T == 2 else (4 if R <= 2 else 3)
                cells.append((T, R, 0, 1, K))
                cells.append((T, R, 1, 1, K))
                if R % 2 == 0 and R:
                    cells.append((T, R, 1, 2, K))
    for (T, R, B, blk, K) in cells:
        qs.append(dict(name='workers_T%d_R%d_%s%d_K%d' % (T, R, 'blk' if B else 'one', blk, K), unit='tools', harness='h_workers.c',
                       defs={'T': T, 'RANGE': R, 'BLOCKS': B, 'BLK': blk, 'ROUNDS': K, 'MAXOPS': 3 * R + 4}, unwind=max(R + 3, K + 2),
                       unwindset=','.join('harness.%d:%d' % (i, 3 * R + 6) for i in range(12)), timeout=1800, mem_gb=8,
                       desc='%d workers of %s over %d values, block %d: exactly-once / hit semantics for every schedule with <= %d context switches per thread' % (T, 'parallel_range_blocks' if B else 'parallel_range', R, blk, K - 1),
                       bounds='T=%d range=%d block=%d rounds=%d' % (T, R, blk, K)))

    def launch(kind, T, R, B, blk, K=1, one_each=False):
        multi = kind != 'launch'
        defs = {'T': T, 'RANGE': R, 'BLOCKS': B, 'BLK': blk}
        if multi:
            defs['MULTI'] = 1
        if K > 1:
            defs['ROUNDS'] = K
        if one_each:
            defs['ONE_EACH'] = 1
        fn = 'parallel_range_blocks_multi' if multi else ('parallel_range_blocks' if B else 'parallel_range')
        sched = ('the schedule in which each of the %d workers claims one block before any callback runs' % T) if one_each else \
                ('every interleaving with <= %d context switch per thread (workers and launcher)' % (K - 1)) if K > 1 else 'workers run to completion in creation order'
        d = dict(name='%s_T%d_R%d_%s%s' % (kind, T, R, ('blk%d' % blk if blk else 'blksym') if B else 'one', '_K%d' % K if (K > 1 and not one_each) else ''),
                 unit='launch', harness='h_launch.c', defs=defs, unwind=max(R, T, 4) + 4,
                 unwindset=','.join('read_schedule.%d:%d' % (i, 3 * R + 7) for i in range(4)), timeout=900, mem_gb=8, object_bits=13,
                 desc='real %s body (std::thread constructor, thread_num, join loop, result%s) over a generic std::thread model; %d threads, %d values; %s'
                      % (fn, ', merge of the per-thread sets, no data race on the sets' if multi else ', <=1 hit', T, R, sched),
                 bounds='T=%d range=%d block=%s, %s%s' % (T, R, blk or 'symbolic in [1,4] (non-dividing sizes must be rejected)', sched, ', unordered_set shim capacity 4' if multi else ''))
        if kind == 'race':
            d['real_san'] = 'thread'  # the replay of a data race is a ThreadSanitizer report against the real code
        qs.append(d)

    if True:  # the quick cells are part of both tiers (replay looks queries up in the thorough list)
        # K1: launch/join/result logic; T > RANGE cells: a worker that must not visit anything (seeded C16-r2m1)
        for (T, R, B, blk) in [(2, 2, 0, 1), (2, 3, 1, 0), (2, 4, 1, 0), (3, 2, 0, 1), (2, 0, 0, 1), (2, 1, 0, 1)]:
            launch('launch', T, R, B, blk)
        # K2: every worker gets work (thread numbers), the launcher may run ahead of the workers (result read before join)
        for (T, R, B, blk) in [(2, 2, 0, 1), (2, 2, 1, 1)]:
            launch('launch', T, R, B, blk, K=2)
        for (T, R, blk) in [(2, 0, 0), (2, 2, 1), (2, 2, 2), (2, 3, 2)]:
            launch('multi', T, R, 1, blk)
        launch('race', 2, 2, 1, 1, K=2, one_each=True)
        launch('race', 3, 3, 1, 1, K=2, one_each=True)
    if tier != 'quick':
        for T in (1, 2, 3):
            for R in (0, 1, 2, 3, 4):
                for (B, blk) in ((0, 1), (1, 0)):
                    launch('launch', T, R, B, blk)
        for (T, R, B, blk) in [(2, 2, 0, 1), (2, 3, 0, 1), (3, 3, 0, 1), (2, 2, 1, 1), (2, 4, 1, 2), (3, 3, 1, 1)]:
            launch('launch', T, R, B, blk, K=2)
        for (T, R, blk) in [(T, R, 0) for T in (1, 2) for R in (0, 1, 2, 3, 4)] + [(3, R, 0) for R in (0, 1, 2)] + [(3, R, b) for R in (3, 4) for b in (1, 2, 3)]:
            launch('multi', T, R, 1, blk)
        for (T, R, blk) in [(2, 2, 1), (2, 4, 2), (3, 3, 1), (2, 2, 1)]:
            launch('race', T, R, 1, blk, K=2, one_each=True)
        launch('multi', 2, 2, 1, 1, K=2)
    seen = set()
    out = []
    for q in qs:
        if q['name'] not in seen:
            seen.add(q['name']); out.append(q)
    return out
