ID = 'C16'
UNITS = {'launch': dict(wrap='wrap.cc', shim=True, new_block=96, cxxflags=['-fno-inline', '-DC16_LAUNCH_ONLY'], cuts=['^_ZNSt6threadC2IRFv']),
         'tools': dict(wrap='wrap.cc', new_block=96, per_harness={'h_workers.c': {'gen_defs': ['VERIF_SEQ']}})}
BOUNDS = 'T in {2,3} worker threads, range length 0..4, block size 1..2, at most ROUNDS-1 context switches per thread'
STUBS = ['callback = harness function recording (value, thread) and returning a symbolic truth bit',
         'atomics: sequentially consistent, bounded-round sequentialisation (engine/rt/rt_model.c verif_atomic_addr)']
OUTSIDE = ['std::thread creation/join in parallel_range itself (see spec notes)', 'more than 3 threads / 4 values', 'relaxed memory (code uses seq_cst only)']
ASSUMPTIONS = ['sequential consistency of std::atomic<uint64_t> default operations']

def queries(tier):
    qs = []
    cells = []
    if tier == 'quick':
        cells = [(2, 0, 0, 1, 3), (2, 2, 0, 1, 4), (2, 3, 0, 1, 4), (2, 2, 1, 2, 4), (2, 2, 1, 1, 4), (2, 4, 1, 2, 4), (3, 2, 0, 1, 3), (3, 3, 0, 1, 3)]
    else:
        for T in (2, 3):
            for R in range(0, 5):
                K = (5 if R <= 3 else 4) if T == 2 else (4 if R <= 2 else 3)
                cells.append((T, R, 0, 1, K))
                cells.append((T, R, 1, 1, K))
                if R % 2 == 0 and R:
                    cells.append((T, R, 1, 2, K))
    for (T, R, B, blk, K) in cells:
        maxops = R + 3 + 2
        qs.append(dict(name='workers_T%d_R%d_%s%d_K%d' % (T, R, 'blk' if B else 'one', blk, K), unit='tools', harness='h_workers.c',
                       defs={'T': T, 'RANGE': R, 'BLOCKS': B, 'BLK': blk, 'ROUNDS': K, 'MAXOPS': 3 * R + 4}, unwind=max(R + 3, K + 2),
                       unwindset=','.join('harness.%d:%d' % (i, 3 * R + 6) for i in range(12)), timeout=1800, mem_gb=8,
                       desc='%d workers of %s over %d values, block %d: exactly-once / hit semantics for every schedule with <= %d context switches per thread' % (T, 'parallel_range_blocks' if B else 'parallel_range', R, blk, K - 1),
                       bounds='T=%d range=%d block=%d rounds=%d' % (T, R, blk, K)))
    lc = [(2, 2, 0, 1), (2, 3, 1, 0), (2, 4, 1, 0)] if tier == 'quick' else [(T, R, B, blk) for T in (1, 2, 3) for R in (0, 1, 2, 3, 4) for (B, blk) in ((0, 1), (1, 0))]
    for (T, R, B, blk) in lc:
        qs.append(dict(name='launch_T%d_R%d_%s' % (T, R, ('blk%d' % blk if blk else 'blksym') if B else 'one'), unit='launch', harness='h_launch.c',
                       defs={'T': T, 'RANGE': R, 'BLOCKS': B, 'BLK': blk}, unwind=max(R, T, 4) + 4, timeout=900, mem_gb=8, object_bits=13,
                       desc='real %s body (thread creation, thread_num, join, result) with std::thread modelled as run-at-creation; %d threads, %d values, <=1 hit' % ('parallel_range_blocks' if B else 'parallel_range', T, R),
                       bounds='T=%d range=%d block=%s, sequential thread schedule' % (T, R, blk or 'symbolic in [1,4] (non-dividing sizes must be rejected)')))
    mc = [(2, 0, 0), (2, 2, 1), (2, 2, 2), (2, 3, 2)] if tier == 'quick' else ([(T, R, 0) for T in (1, 2) for R in (0, 1, 2, 3, 4)] + [(3, R, 0) for R in (0, 1, 2)] + [(3, R, b) for R in (3, 4) for b in (1, 2, 3)])
    for (T, R, blk) in mc:
        qs.append(dict(name='multi_T%d_R%d_%s' % (T, R, 'blk%d' % blk if blk else 'blksym'), unit='launch', harness='h_launch.c',
                       defs={'T': T, 'RANGE': R, 'BLOCKS': 1, 'BLK': blk, 'MULTI': 1}, unwind=max(R, T, 4) + 4, timeout=1200, mem_gb=20, object_bits=13,
                       desc='real parallel_range_blocks_multi body: result set == set of values whose callback returned true (any subset), every value visited exactly once; %d threads, %d values' % (T, R),
                       bounds='T=%d range=%d block=%s, sequential thread schedule, unordered_set shim capacity 4' % (T, R, blk or 'symbolic in [1,4]')))
    return qs
