/* C16: the launch/join logic of parallel_range / parallel_range_blocks itself (thread creation, thread_num assignment, join,
 * result) with std::thread MODELLED: a created thread runs to completion inside the constructor (one fixed schedule: thread
 * 0, then 1, ...); interleavings of the workers are covered by h_workers.c. A thread object destroyed while joinable reaches
 * std::terminate (as in the real library) = assertion failure, so "all workers are joined before the call returns" is checked.
 * To keep results schedule-independent (the native real build uses real threads) at most ONE callback returns true. */
#include "harness.h"
int64_t w_parallel_range(uint64_t start, uint64_t end, uint64_t nthreads, uint64_t* out);
int64_t w_parallel_range_blocks(uint64_t start, uint64_t end, uint64_t block, uint64_t nthreads, uint64_t* out);
int64_t w_parallel_range_multi(uint64_t start, uint64_t end, uint64_t block, uint64_t nthreads, uint64_t* out, uint64_t cap);
#ifndef MULTI
#define MULTI 0
#endif
#define START 5
#if BLK == 0
static uint64_t blk_v; /* symbolic block size in [1,4] */
#define BLKV blk_v
#else
#define BLKV ((uint64_t)BLK)
#endif
static uint32_t visits[RANGE + 1], oob, bad_thread, thread_seen[T + 1];
static uint64_t hit; /* index of the single true value, or RANGE for none */
static uint8_t truth[RANGE + 1]; /* MULTI: any subset of values may return true (the _multi variant never stops early) */
#ifdef VERIF_NATIVE_REAL
#include <pthread.h>
#include <time.h>
static pthread_mutex_t mu = PTHREAD_MUTEX_INITIALIZER;
#define LOCK() pthread_mutex_lock(&mu)
#define UNLOCK() pthread_mutex_unlock(&mu)
static uint32_t started = T, joined = T; /* real build: an unjoined std::thread terminates the process instead */
static pthread_cond_t cv = PTHREAD_COND_INITIALIZER;
static pthread_t seen_ids[T + 1];
static uint32_t nseen;
static uint32_t bad_tn; /* model-only observation; in the real build a wrong thread_num shows up in the callback (barrier below) */
/* Real threads: the first callback of each thread waits (bounded) until T distinct threads have entered a callback, so that
   every worker demonstrably gets a value when RANGE >= T and its thread_num becomes observable. */
static void arrive(void) { /* mu held */
  pthread_t me = pthread_self();
  for (uint32_t i = 0; i < nseen; i++) if (pthread_equal(seen_ids[i], me)) return;
  if (nseen < T) seen_ids[nseen] = me;
  nseen++;
  pthread_cond_broadcast(&cv);
  struct timespec ts;
  clock_gettime(CLOCK_REALTIME, &ts);
  ts.tv_nsec += 300000000L;
  if (ts.tv_nsec >= 1000000000L) { ts.tv_sec++; ts.tv_nsec -= 1000000000L; }
  while (nseen < T) if (pthread_cond_timedwait(&cv, &mu, &ts)) break;
}
void verif_sched_point(void) {} /* no schedule control in this harness */
uint64_t _ZN5phosg3nowEv(void) { return 0; } /* phosg::now(): only reached when a progress function is given */
#else
#define LOCK()
#define UNLOCK()
#define arrive()
#include "verif_rt.h"
static uint32_t started, joined, bad_tn;
/* std::thread model: the constructor instantiations std::thread::thread(F&, reference_wrapper..., end, thread_num) are cut
 * out of the translation (unit config cuts=) and provided here: the new thread runs to completion immediately.
 * reference_wrapper<T> is { T* }. */
void X__ZNSt6threadC2IRFvRSt8functionIFbmmEERSt6atomicImES7_mmEJSt17reference_wrapperIS3_ESA_IS6_ESC_RmmEvEEOT_DpOT0_(
    uint8_t* self, uint8_t* f, uint8_t* rw_fn, uint8_t* rw_cur, uint8_t* rw_res, uint8_t* end, uint8_t* tn) {
  started++;
  *(uint64_t*)self = started; /* joinable */
  if (*(uint64_t*)tn >= T) bad_tn = 1;
  ((void (*)(uint8_t*, uint8_t*, uint8_t*, uint64_t, uint64_t))f)(*(uint8_t**)rw_fn, *(uint8_t**)rw_cur, *(uint8_t**)rw_res, *(uint64_t*)end, *(uint64_t*)tn);
}
void X__ZNSt6threadC2IRFvRSt8functionIFbmmEERSt6atomicImES7_mmmEJSt17reference_wrapperIS3_ESA_IS6_ESC_RmSD_mEvEEOT_DpOT0_(
    uint8_t* self, uint8_t* f, uint8_t* rw_fn, uint8_t* rw_cur, uint8_t* rw_res, uint8_t* end, uint8_t* blk, uint8_t* tn) {
  started++;
  *(uint64_t*)self = started;
  if (*(uint64_t*)tn >= T) bad_tn = 1;
  ((void (*)(uint8_t*, uint8_t*, uint8_t*, uint64_t, uint64_t, uint64_t))f)(*(uint8_t**)rw_fn, *(uint8_t**)rw_cur, *(uint8_t**)rw_res, *(uint64_t*)end, *(uint64_t*)blk, *(uint64_t*)tn);
}
void X__ZNSt6thread4joinEv(uint8_t* self) {
  if (*(uint64_t*)self == 0) ASSERT(0, "join() on a joinable thread only");
  *(uint64_t*)self = 0;
  joined++;
}
uint32_t X__ZNSt6thread20hardware_concurrencyEv(void) { return 2; }
uint64_t X__ZN5phosg3nowEv(void) { return 0; }
uint32_t X_usleep(uint32_t us) { (void)us; return 0; }
#endif
uint8_t STUB(verif_cb)(uint64_t v, uint64_t t) {
  LOCK();
  arrive();
  if (v >= START && v < START + RANGE) visits[v - START]++; else oob = 1;
  if (t >= T) bad_thread = 1; else thread_seen[t] = 1;
  UNLOCK();
  return MULTI ? ((v >= START && v < START + RANGE) ? truth[v - START] : 0) : (v == START + hit);
}
#if MULTI
void harness(void) {
  for (int i = 0; i < RANGE; i++) truth[i] = in_bool();
#if BLK == 0
  blk_v = in_range(1, 4);
#endif
  uint64_t out[RANGE + 1];
  int64_t rc = w_parallel_range_multi(START, START + RANGE, BLKV, T, out, RANGE + 1);
  OBS(rc);
  if (RANGE % BLKV) { /* documented precondition violated: the call must refuse (logic_error) without visiting anything */
    ASSERT(rc == -4, "block size not dividing the range is rejected with logic_error");
    for (int i = 0; i < RANGE; i++) ASSERT(visits[i] == 0, "rejected call visits nothing");
    ASSERT(!oob, "callback never invoked outside [start,end)");
    return;
  }
  ASSERT(joined == started && started <= T, "every started worker is joined before the call returns (and no more than num_threads are started)");
  ASSERT(!oob, "callback never invoked outside [start,end)");
  ASSERT(!bad_thread && !bad_tn, "thread numbers lie in [0,num_threads)");
  for (int i = 0; i < RANGE; i++) ASSERT(visits[i] == 1, "_multi never stops early: every value visited exactly once");
  uint64_t n = 0;
  for (int i = 0; i < RANGE; i++) if (truth[i]) n++;
  ASSERT(rc == (int64_t)n, "_multi returns exactly as many values as callbacks returned true");
  if (rc == (int64_t)n) {
    uint64_t k = 0;
    for (int i = 0; i < RANGE; i++) if (truth[i]) { ASSERT(out[k] == START + (uint64_t)i, "_multi returns exactly the set of true values"); k++; }
  }
}
#else
void harness(void) {
  hit = in_range(0, RANGE);
#if BLK == 0
  blk_v = in_range(1, 4);
#endif
  uint64_t out = 0;
  int64_t rc = BLOCKS ? w_parallel_range_blocks(START, START + RANGE, BLKV, T, &out) : w_parallel_range(START, START + RANGE, T, &out);
  OBS(rc); OBS(out);
  if (BLOCKS && (RANGE % BLKV)) { /* documented precondition violated: the call must refuse (logic_error) without visiting anything */
    ASSERT(rc == -4, "block size not dividing the range is rejected with logic_error");
    for (int i = 0; i < RANGE; i++) ASSERT(visits[i] == 0, "rejected call visits nothing");
    ASSERT(!oob, "callback never invoked outside [start,end)");
    return;
  }
  ASSERT(rc == 0, "parallel_range does not throw for a valid range / block size / thread count");
  ASSERT(joined == started && started <= T, "every started worker is joined before the call returns (and no more than num_threads are started)");
  ASSERT(!oob, "callback never invoked outside [start,end)");
  ASSERT(!bad_thread && !bad_tn, "thread numbers lie in [0,num_threads)");
  for (int i = 0; i < RANGE; i++) ASSERT(visits[i] <= 1, "no value is visited twice");
  if (hit == RANGE) {
    ASSERT(out == START + RANGE, "no hit: returns end_value");
    for (int i = 0; i < RANGE; i++) ASSERT(visits[i] == 1, "no hit: every value visited exactly once");
  } else {
    ASSERT(out == START + hit, "single hit: that value is returned");
  }
}
#endif
