/* C16: the launch/join logic of parallel_range / parallel_range_blocks / parallel_range_blocks_multi itself (thread creation,
 * thread_num assignment, join, result, merge of the per-thread sets) with std::thread MODELLED - generically:
 *   - libstdc++'s std::thread constructor template is translated as it is (it packs callable + arguments into a heap
 *     std::thread::_State_impl<...> with a virtual _M_run()); only the out-of-line library function
 *     std::thread::_M_start_thread(unique_ptr<_State>, void(*)()) is modelled here: the thread object becomes joinable, the
 *     state is taken out of the unique_ptr, its _M_run() is called through the vtable (the new thread runs at creation) and the
 *     state is destroyed through its deleting destructor. Nothing here depends on the worker's name or parameter list.
 *   - join() is modelled; destroying a joinable thread reaches std::terminate (real library code) = failure, so "all workers
 *     are joined before the call returns" is checked.
 *   - ROUNDS == 1: one fixed schedule (worker 1 runs to completion, then worker 2, ...). ROUNDS >= 2: bounded-round
 *     sequentialisation (Lal-Reps) of the workers AND the launching thread over the atomic words the code uses (found by
 *     address at their first atomic access): at every atomic operation the running thread may move to a later round
 *     (harness input adv[thread][k]); every interleaving of the atomic operations with at most ROUNDS-1 context switches per
 *     thread is one solver assignment. A new thread starts in the round of its creator, join() moves the caller to the last
 *     round of the joined thread.
 *   - data races on the result containers: the unordered_set shim reports every access (verif_shared_access); a started worker
 *     counts as concurrent with every other thread until it has been joined; a write by one thread and any access by another
 *     concurrent thread to the same set object is a failure.
 * Native real build: real std::thread, real libstdc++ containers. The first callback of each thread waits (bounded) until
 * min(T, #blocks) threads have arrived, so every worker demonstrably gets a block (thread numbers observable; simultaneous
 * emplace calls for the ThreadSanitizer replay of race cells). Only schedule-independent values are observed. */
#include "harness.h"
int64_t w_parallel_range(uint64_t start, uint64_t end, uint64_t nthreads, uint64_t* out);
int64_t w_parallel_range_blocks(uint64_t start, uint64_t end, uint64_t block, uint64_t nthreads, uint64_t* out);
int64_t w_parallel_range_multi(uint64_t start, uint64_t end, uint64_t block, uint64_t nthreads, uint64_t* out, uint64_t cap);
#ifndef MULTI
#define MULTI 0
#endif
#ifndef ROUNDS
#define ROUNDS 1
#endif
#define START 5
#define MAXOPS (3 * RANGE + 4) /* atomic operations per thread covered by the schedule table */
#if BLK == 0
static uint64_t blk_v; /* symbolic block size in [1,4] */
#define BLKV blk_v
#else
#define BLKV ((uint64_t)BLK)
#endif
static uint32_t visits[RANGE + 1], oob, bad_thread;
static uint64_t hit; /* index of the single true value, or RANGE for none */
static uint8_t truth[RANGE + 1]; /* MULTI: any subset of values may return true (the _multi variant never stops early) */
static uint64_t guess_in[ROUNDS][2]; /* ROUNDS > 1: value of the i-th atomic word at the start of round r (constrained at the end) */
static uint8_t adv[T + 1][MAXOPS]; /* ROUNDS > 1: round advance taken at the k-th atomic operation of thread t (0 = launcher) */

#ifdef VERIF_NATIVE_REAL
/* ---------------------------------------------------------------- real threads */
#include <pthread.h>
#include <time.h>
static pthread_mutex_t mu = PTHREAD_MUTEX_INITIALIZER;
static pthread_cond_t cv = PTHREAD_COND_INITIALIZER;
static uint32_t started = T, joined = T; /* real build: an unjoined std::thread terminates the process instead */
static uint32_t race_seen, race_over, ops_over, seq_over; /* model-only observations */
static uint32_t nseen, target = T;
static __thread int arrived;
/* The barrier is the only place where the harness synchronises the workers: the bookkeeping below uses relaxed atomics, which
 * order nothing (ThreadSanitizer derives no happens-before from them), so two workers that both leave the barrier and call
 * emplace on one shared set are reported whatever the timing. */
static void arrive(void) {
  if (arrived) return;
  arrived = 1;
  pthread_mutex_lock(&mu);
  nseen++;
  pthread_cond_broadcast(&cv);
  struct timespec ts;
  clock_gettime(CLOCK_REALTIME, &ts);
  ts.tv_nsec += 300000000L;
  if (ts.tv_nsec >= 1000000000L) { ts.tv_sec++; ts.tv_nsec -= 1000000000L; }
  while (nseen < target) if (pthread_cond_timedwait(&cv, &mu, &ts)) break;
  pthread_mutex_unlock(&mu);
}
#define COUNT(x) __atomic_fetch_add(&(x), 1, __ATOMIC_RELAXED)
#define FLAG(x) __atomic_store_n(&(x), 1, __ATOMIC_RELAXED)
#define CUT_CALLS()
/* Replay of a counterexample of a K2 cell (ROUNDS > 1, not the race cells): wrap.cc instruments std::atomic so that every atomic
 * operation first calls verif_sched_point(); a turn-based scheduler lets the real threads perform their atomic operations in
 * the solver's order (round-major; within a round worker 1..T, then the launcher - the order in which the model runs them).
 * Workers are numbered in the order of their first atomic operation (they are symmetric). The launcher only takes part while
 * it waits at an atomic operation (while it is inside join() its slot is skipped after a grace period); a worker's exit is
 * seen by a thread-specific destructor. If the real threads do not follow the plan (a thread never shows up), the scheduler
 * switches itself off after 3 s and the threads run free. */
extern int verif_replay_mode;
static int sched_on;
static __thread int me = -1; /* -1: not numbered yet; 0: launcher; w: worker */
static uint32_t turn_round, turn_thread = 1, next_id = 1, r_ops[T + 1], r_round[T + 1], r_done[T + 1], r_waiting[T + 1];
static struct timespec turn_since, sched_deadline;
static pthread_key_t exit_key;
static int64_t ms_since(const struct timespec* a) {
  struct timespec n; clock_gettime(CLOCK_REALTIME, &n);
  return (int64_t)(n.tv_sec - a->tv_sec) * 1000 + (n.tv_nsec - a->tv_nsec) / 1000000;
}
static void advance_turn(void) { /* mu held */
  for (int guard = 0; guard < 4 * (T + 1) * (ROUNDS + 2); guard++) {
    if (turn_thread == 0) { turn_thread = 1; turn_round++; } else if (turn_thread == T) turn_thread = 0; else turn_thread++;
    if (!r_done[turn_thread]) break;
  }
  clock_gettime(CLOCK_REALTIME, &turn_since);
  pthread_cond_broadcast(&cv);
}
static void on_thread_exit(void* v) {
  int w = (int)(intptr_t)v - 1;
  pthread_mutex_lock(&mu);
  r_done[w] = 1;
  if (turn_thread == (uint32_t)w) advance_turn();
  pthread_cond_broadcast(&cv);
  pthread_mutex_unlock(&mu);
}
/* The model numbers workers in creation order (their thread_num differs). Creation order of real threads = order of their
 * kernel thread ids (Linux hands them out increasingly): the first T threads that show up are collected (up to 200 ms) and
 * numbered by id; later ones get the following numbers in order of arrival. */
#include <sys/syscall.h>
#include <unistd.h>
static long reg_tid[T];
static uint32_t n_reg, reg_closed;
static struct timespec reg_since;
static int number_me(void) { /* mu held */
  long tid = syscall(SYS_gettid);
  if (reg_closed) return next_id <= T ? (int)next_id++ : -1;
  if (n_reg == 0) clock_gettime(CLOCK_REALTIME, &reg_since);
  reg_tid[n_reg++] = tid;
  pthread_cond_broadcast(&cv);
  while (!reg_closed && n_reg < T && ms_since(&reg_since) < 200) {
    struct timespec ts; clock_gettime(CLOCK_REALTIME, &ts);
    ts.tv_nsec += 10000000L;
    if (ts.tv_nsec >= 1000000000L) { ts.tv_sec++; ts.tv_nsec -= 1000000000L; }
    pthread_cond_timedwait(&cv, &mu, &ts);
  }
  if (!reg_closed) { reg_closed = 1; next_id = n_reg + 1; clock_gettime(CLOCK_REALTIME, &turn_since); pthread_cond_broadcast(&cv); }
  int rank = 1;
  for (uint32_t i = 0; i < n_reg; i++) if (reg_tid[i] < tid) rank++;
  return rank;
}
void verif_sched_point(void) {
  if (!__atomic_load_n(&sched_on, __ATOMIC_RELAXED)) return;
  pthread_mutex_lock(&mu);
  if (me < 0) { /* first atomic operation of a new thread: number it */
    me = number_me();
    if (me < 0) { me = -2; pthread_mutex_unlock(&mu); return; } /* more threads than the plan knows: runs free */
    pthread_setspecific(exit_key, (void*)(intptr_t)(me + 1));
  } else if (me == -2) { pthread_mutex_unlock(&mu); return; }
  uint32_t k = r_ops[me]++;
  uint32_t want = r_round[me] + (k < MAXOPS ? adv[me][k] : 0);
  r_round[me] = want;
  r_waiting[me] = 1;
  while (sched_on) {
    if (turn_thread == (uint32_t)me) {
      if (turn_round >= want) break;
      advance_turn(); /* my next operation belongs to a later round: let the others run */
      continue;
    }
    if (turn_thread == 0 && !r_waiting[0] && ms_since(&turn_since) >= 50) { advance_turn(); continue; } /* launcher is busy elsewhere (join) */
    if (ms_since(&sched_deadline) >= 0) { sched_on = 0; pthread_cond_broadcast(&cv); break; }
    struct timespec ts; clock_gettime(CLOCK_REALTIME, &ts);
    ts.tv_nsec += 20000000L;
    if (ts.tv_nsec >= 1000000000L) { ts.tv_sec++; ts.tv_nsec -= 1000000000L; }
    pthread_cond_timedwait(&cv, &mu, &ts);
  }
  r_waiting[me] = 0;
  pthread_mutex_unlock(&mu);
}
static void sched_start(void) {
#if ROUNDS > 1 && !defined(ONE_EACH)
  if (!verif_replay_mode) return;
  pthread_key_create(&exit_key, on_thread_exit);
  me = 0;
  clock_gettime(CLOCK_REALTIME, &sched_deadline); sched_deadline.tv_sec += 3;
  clock_gettime(CLOCK_REALTIME, &turn_since);
  target = 0; /* no barrier: the schedule decides who runs */
  sched_on = 1;
#endif
}
static void model_end(void) { __atomic_store_n(&sched_on, 0, __ATOMIC_RELAXED); }
uint64_t _ZN5phosg3nowEv(void) { return 0; } /* phosg::now(): only reached when a progress function is given */
#else
/* ---------------------------------------------------------------- model (CBMC and native generated C) */
#include "verif_rt.h"
#define MASSERT(c, msg) __CPROVER_assert((c), "H: " msg) /* model-internal check: silent in native runs unless it fails */
#define arrive()
#define COUNT(x) ((x)++)
#define FLAG(x) ((x) = 1)
#define MAXW 4 /* threads the model can number (bit masks below) */
static uint32_t started, joined, cur; /* cur: the running thread, 0 = launcher, w = the w-th started thread */
static uint32_t live; /* bit w: thread w has been started and not yet joined */
static uint32_t calls[MAXW + 1];

/* -- atomics: every atomic load/store/rmw of the translated code goes through verif_atomic_addr() (unit gen_defs VERIF_ATOMIC_HOOK) */
#ifdef VERIF_CBMC
#define NROUNDS ROUNDS
#else
#define NROUNDS 1 /* native generated C (translation validation): one thread after the other */
#endif
#define NVARS 2 /* cursor, result */
static uint8_t* seq_var[NVARS];
static uint64_t seq_copy[NROUNDS][NVARS], seq_guess[NROUNDS][NVARS];
static uint32_t seq_nvars, seq_round, seq_ops, seq_over, ops_over, last_round[MAXW + 1];
uint8_t* verif_atomic_addr(uint8_t* p) {
#if NROUNDS > 1
  uint32_t k = seq_ops++;
  if (k >= MAXOPS) ops_over = 1;
  uint32_t a = k < MAXOPS ? adv[cur][k] : 0;
  ASSUME(seq_round + a < NROUNDS);
  seq_round += a;
#endif
  for (int i = 0; i < NVARS; i++)
    if (i < (int)seq_nvars && p == seq_var[i]) return (uint8_t*)&seq_copy[seq_round][i];
  if (seq_nvars >= NVARS) { seq_over = 1; return p; }
  int i = (int)seq_nvars++;
  seq_var[i] = p;
  seq_copy[0][i] = *(uint64_t*)p; /* value before the first atomic access; later rounds start from guesses */
  for (int r = 1; r < NROUNDS; r++) {
    uint64_t g = guess_in[r][i];
#ifdef ONE_EACH
    if (i == 0) g = START + RANGE; /* schedule cell, see read_schedule() */
#endif
    seq_copy[r][i] = seq_guess[r][i] = g;
  }
  return (uint8_t*)&seq_copy[seq_round][i];
}
/* end of the run: keep only executions whose guesses were right (round r+1 starts where round r ended) */
static void model_end(void) {
  for (int i = 0; i < NVARS; i++)
    for (int r = 0; r + 1 < NROUNDS; r++)
      if (i < (int)seq_nvars) ASSUME(seq_copy[r][i] == seq_guess[r + 1][i]);
}
#if NROUNDS > 1
/* Guesses are only constrained at the end; executions built on inconsistent guesses would trip unwinding assertions. They are
 * cut here: no thread makes more than RANGE+1 callbacks in the executions considered (a tree in which EVERY execution exceeds
 * this makes the query vacuous, which is reported). */
#define CUT_CALLS() do { calls[cur]++; ASSUME(calls[cur] <= RANGE + 1); } while (0)
#else
#define CUT_CALLS()
#endif

/* -- std::thread */
void X__ZNSt6thread15_M_start_threadESt10unique_ptrINS_6_StateESt14default_deleteIS1_EEPFvvE(uint8_t* self, uint8_t* up, uint8_t* depend) {
  (void)depend;
  uint8_t* st = *(uint8_t**)up; /* unique_ptr<_State> is { _State* }: take the state out (the caller's unique_ptr is left empty) */
  *(uint8_t**)up = 0;
  MASSERT(st != 0, "std::thread is started with a state object");
  MASSERT(started < MAXW, "BOUND: more threads started than the model numbers");
  ASSUME(started < MAXW);
  started++;
  *(uint64_t*)self = started; /* std::thread is { id { native handle } }: non-zero = joinable */
  live |= 1u << started;
  uint32_t prev = cur, prev_ops = seq_ops, prev_round = seq_round; /* the new thread starts in the creator's round */
  cur = started; seq_ops = 0;
  uint8_t** vt = *(uint8_t***)st; /* Itanium ABI: [0] complete destructor, [1] deleting destructor, [2] _M_run */
  ((void (*)(uint8_t*))vt[2])(st);
  MASSERT(!verif_exc_active, "no exception leaves a thread function (std::terminate)");
  last_round[cur] = seq_round;
  cur = prev; seq_ops = prev_ops; seq_round = prev_round; /* the creator continues where it was */
  ((void (*)(uint8_t*))vt[1])(st); /* the thread's state dies with the thread */
}
void X__ZNSt6thread6_StateD2Ev(uint8_t* self) { (void)self; } /* std::thread::_State::~_State(): out of line in the library, empty */
void X__ZNSt6thread4joinEv(uint8_t* self) {
  uint64_t w = *(uint64_t*)self;
  if (w == 0 || w > MAXW) { MASSERT(0, "join() on a joinable thread only"); return; }
  *(uint64_t*)self = 0;
  joined++;
  live &= ~(1u << w);
  if (seq_round < last_round[w]) seq_round = last_round[w]; /* everything the joined thread did happens before what follows */
}
uint32_t X__ZNSt6thread20hardware_concurrencyEv(void) { return 2; }
uint64_t X__ZN5phosg3nowEv(void) { return 0; }
uint32_t X_usleep(uint32_t us) { (void)us; return 0; }

/* -- data races on containers (engine/shim/unordered_set compiled with -DVERIF_RACE_HOOK): kind 0 = read, 1 = write,
 * 2 = destruction. Accesses of a joined thread happen before everything the joiner does afterwards; accesses of the launcher
 * made while no started thread is alive are ordered with everything. */
#define NOBJ 6
static uint8_t* r_obj[NOBJ];
static uint32_t r_acc[NOBJ], r_wr[NOBJ], r_n, race_seen, race_over;
void X_verif_shared_access(uint8_t* obj, uint32_t kind) {
  if (!live) return;
  uint32_t me = 1u << cur, others = live & ~me;
  if (cur == 0) me = 0; /* the launcher's accesses are checked against the live workers' recorded ones, not recorded */
  int found = 0;
  for (int i = 0; i < NOBJ; i++)
    if (i < (int)r_n && r_obj[i] == obj) {
      found = 1;
      if ((r_wr[i] & others) || (kind && (r_acc[i] & others))) race_seen = 1;
      r_acc[i] |= me;
      if (kind) r_wr[i] |= me;
    }
  if (!found && me) {
    if (r_n < NOBJ) { r_obj[r_n] = obj; r_acc[r_n] = me; r_wr[r_n] = kind ? me : 0; r_n++; }
    else race_over = 1;
  }
}
#endif

uint8_t STUB(verif_cb)(uint64_t v, uint64_t t) {
  CUT_CALLS();
  arrive();
  if (v >= START && v < START + RANGE) COUNT(visits[v - START]); else FLAG(oob);
  if (t >= T) FLAG(bad_thread);
  return MULTI ? ((v >= START && v < START + RANGE) ? truth[v - START] : 0) : (v == START + hit);
}

static void read_schedule(void) {
#if ROUNDS > 1
  for (int t = 0; t <= T; t++) for (int k = 0; k < MAXOPS; k++) {
    adv[t][k] = (uint8_t)in_range(0, ROUNDS - 1);
#ifdef ONE_EACH
    /* schedule cell "one block each" (ROUNDS == 2, #blocks == T): ONE concrete schedule instead of all of them - every worker
       performs exactly its first atomic operation (its first claim) in round 0 and everything else in round 1, and the first
       atomic word the workers touch (the cursor) is at end_value when round 1 starts, i.e. workers 1..T claim blocks 1..T, then
       all of them run their callbacks. All values stay concrete (cheap); only the launcher's position is symbolic. A tree in
       which this schedule does not exist makes the query vacuous, which is reported. */
    if (t) adv[t][k] = (k == 1);
#endif
  }
#endif
#if ROUNDS > 1
  for (int r = 1; r < ROUNDS; r++) for (int i = 0; i < 2; i++) guess_in[r][i] = in_u64();
#endif
#ifdef VERIF_NATIVE_REAL
  uint64_t nblocks = BLOCKS ? ((RANGE % BLKV) ? 0 : RANGE / BLKV) : RANGE;
  target = nblocks < T ? (uint32_t)nblocks : T;
  sched_start();
#endif
}
static void common_checks(void) {
  ASSERT(!seq_over, "BOUND: the code uses more atomic words than the model tracks");
  ASSERT(!ops_over, "BOUND: atomic operations per thread within the schedule table");
  ASSERT(joined == started && started <= T, "every started worker is joined before the call returns (and no more than num_threads are started)");
  ASSERT(!oob, "callback never invoked outside [start,end)");
  ASSERT(!bad_thread, "thread numbers lie in [0,num_threads)");
  ASSERT(!race_over, "BOUND: container objects tracked by the race check");
  ASSERT(!race_seen, "no data race on the result containers");
}
#if MULTI
void harness(void) {
  for (int i = 0; i < RANGE; i++) truth[i] = in_bool();
#if BLK == 0
  blk_v = in_range(1, 4);
#endif
  read_schedule();
  uint64_t out[RANGE + 1];
  int64_t rc = w_parallel_range_multi(START, START + RANGE, BLKV, T, out, RANGE + 1);
  model_end();
  OBS(rc);
  if (RANGE % BLKV) { /* documented precondition violated: the call must refuse (logic_error) without visiting anything */
    ASSERT(rc == -4, "block size not dividing the range is rejected with logic_error");
    for (int i = 0; i < RANGE; i++) ASSERT(visits[i] == 0, "rejected call visits nothing");
    ASSERT(!oob, "callback never invoked outside [start,end)");
    return;
  }
  common_checks();
  for (int i = 0; i < RANGE; i++) ASSERT(visits[i] == 1, "_multi never stops early: every value visited exactly once");
  uint64_t n = 0;
  for (int i = 0; i < RANGE; i++) if (truth[i]) n++;
  ASSERT(rc == (int64_t)n, "_multi returns exactly as many values as callbacks returned true");
  if (rc == (int64_t)n) {
    uint64_t k = 0;
    for (int i = 0; i < RANGE; i++) if (truth[i]) { ASSERT(out[k] == START + (uint64_t)i, "_multi returns exactly the set of true values"); k++; }
  }
}
#else
void harness(void) {
  hit = in_range(0, RANGE);
#if BLK == 0
  blk_v = in_range(1, 4);
#endif
  read_schedule();
  uint64_t out = 0;
  int64_t rc = BLOCKS ? w_parallel_range_blocks(START, START + RANGE, BLKV, T, &out) : w_parallel_range(START, START + RANGE, T, &out);
  model_end();
  OBS(rc); OBS(out);
  if (BLOCKS && (RANGE % BLKV)) { /* documented precondition violated: the call must refuse (logic_error) without visiting anything */
    ASSERT(rc == -4, "block size not dividing the range is rejected with logic_error");
    for (int i = 0; i < RANGE; i++) ASSERT(visits[i] == 0, "rejected call visits nothing");
    ASSERT(!oob, "callback never invoked outside [start,end)");
    return;
  }
  ASSERT(rc == 0, "parallel_range does not throw for a valid range / block size / thread count");
  common_checks();
  for (int i = 0; i < RANGE; i++) ASSERT(visits[i] <= 1, "no value is visited twice");
  if (hit == RANGE) {
    ASSERT(out == START + RANGE, "no hit: returns end_value");
    for (int i = 0; i < RANGE; i++) ASSERT(visits[i] == 1, "no hit: every value visited exactly once");
  } else {
    ASSERT(out == START + hit, "single hit: that value is returned");
  }
}
#endif
