/* C16: T worker threads of parallel_range (BLOCKS==0) / parallel_range_blocks (BLOCKS==1) under every interleaving of their
 * atomic operations with at most ROUNDS-1 context switches per thread (bounded-round sequentialisation, rt_model.c).
 * Cells: T threads, range [START,START+RANGE), block size BLK (BLOCKS==1). Symbolic: which callbacks return true, the schedule.
 * Input vector layout (fixed, so that a counterexample can be replayed): truth[RANGE], adv[T][MAXOPS] (round advance taken
 * at the k-th atomic operation of thread t), then (CBMC only) the round guesses.
 * Replay (native real build): the same T workers run as REAL pthreads; wrap.cc instruments std::atomic so that every
 * atomic operation first calls verif_sched_point(), which blocks until the solver's schedule says it is this thread's turn. */
#include "harness.h"
uint8_t* w_mk(uint64_t start, uint64_t end, uint64_t block);
int64_t w_worker(uint8_t* s, uint64_t tn);
int64_t w_worker_blocks(uint8_t* s, uint64_t tn);
uint64_t w_result(uint8_t* s);
uint64_t w_cursor(uint8_t* s);
uint8_t* w_cur_addr(uint8_t* s);
uint8_t* w_res_addr(uint8_t* s);
void w_free(uint8_t* s);
#define START 5 /* a non-zero start value: off-by-start errors are visible */
static uint32_t visits[RANGE + 1], oob, bad_thread;
static uint8_t truth[RANGE + 1];
static uint8_t adv[T][MAXOPS];
static uint32_t calls[T], ops[T];
static uint32_t cur_thread; /* sequential modes: the thread being run */

#ifdef VERIF_NATIVE_REAL
#include <pthread.h>
extern int verif_replay_mode;
static pthread_mutex_t mu = PTHREAD_MUTEX_INITIALIZER;
static pthread_cond_t cv = PTHREAD_COND_INITIALIZER;
static uint32_t turn_round, turn_thread, done[T], my_round[T], scheduled;
static __thread int me = -1;
static void advance_turn(void) { /* mu held */
  for (int guard = 0; guard < 4 * T * (ROUNDS + 2); guard++) {
    turn_thread++;
    if (turn_thread == T) { turn_thread = 0; turn_round++; }
    if (!done[turn_thread]) break;
  }
  pthread_cond_broadcast(&cv);
}
void verif_sched_point(void) {
  if (!scheduled || me < 0) return;
  pthread_mutex_lock(&mu);
  uint32_t k = ops[me]++;
  uint32_t want = my_round[me] + (k < MAXOPS ? adv[me][k] : 0);
  my_round[me] = want;
  for (;;) {
    if (turn_thread == (uint32_t)me) {
      if (turn_round >= want) break;
      advance_turn(); /* my next operation belongs to a later round: let the others run */
      continue;
    }
    pthread_cond_wait(&cv, &mu);
  }
  pthread_mutex_unlock(&mu);
}
static uint8_t* shared;
static void* thread_main(void* arg) {
  me = (int)(intptr_t)arg;
  /* wait for the first turn */
  pthread_mutex_lock(&mu);
  while (!(turn_thread == (uint32_t)me)) pthread_cond_wait(&cv, &mu);
  pthread_mutex_unlock(&mu);
  int64_t rc = BLOCKS ? w_worker_blocks(shared, (uint64_t)me) : w_worker(shared, (uint64_t)me);
  pthread_mutex_lock(&mu);
  done[me] = 1;
  int all = 1;
  for (int i = 0; i < T; i++) all &= done[i];
  if (!all) advance_turn();
  pthread_mutex_unlock(&mu);
  return (void*)(intptr_t)rc;
}
#define WHO ((uint32_t)(me >= 0 ? me : cur_thread))
#else
extern uint8_t* verif_seq_var[];
extern uint32_t verif_seq_rounds, verif_seq_ops;
void verif_seq_begin(void); void verif_seq_thread_start(void); void verif_seq_end(void);
uint64_t verif_seq_choice(void) { uint32_t k = ops[cur_thread]++; return k < MAXOPS ? adv[cur_thread][k] : 0; }
uint64_t verif_seq_value(void) { return in_u64(); }
#define WHO cur_thread
#endif

uint8_t STUB(verif_cb)(uint64_t v, uint64_t t) {
  /* Round guesses are only constrained at verif_seq_end(); executions built on inconsistent guesses are discarded there, but
     their loops would still trip the unwinding assertions. Cut them here: no thread makes more than RANGE+1 callbacks in the
     executions considered (a tree where EVERY execution exceeds this makes the query vacuous, which is reported). */
  calls[WHO]++;
#ifndef VERIF_NATIVE_REAL
  ASSUME(calls[WHO] <= RANGE + 1);
#endif
#ifdef VERIF_NATIVE_REAL
  pthread_mutex_lock(&mu);
#endif
  if (v >= START && v < START + RANGE) visits[v - START]++; else oob = 1;
  if (t >= T) bad_thread = 1;
#ifdef VERIF_NATIVE_REAL
  pthread_mutex_unlock(&mu);
#endif
  return (v >= START && v < START + RANGE) ? truth[v - START] : 0;
}

void harness(void) {
  int any = 0;
  for (int i = 0; i < RANGE; i++) { truth[i] = in_bool(); any |= truth[i]; }
  for (int t = 0; t < T; t++) for (int k = 0; k < MAXOPS; k++) adv[t][k] = (uint8_t)in_range(0, ROUNDS - 1);
  uint8_t* sh = w_mk(START, START + RANGE, BLK);
#ifdef VERIF_NATIVE_REAL
  if (verif_replay_mode) {
    /* real threads under the counterexample's schedule */
    shared = sh; scheduled = 1; turn_round = 0; turn_thread = 0;
    pthread_t th[T];
    for (int t = 0; t < T; t++) pthread_create(&th[t], 0, thread_main, (void*)(intptr_t)t);
    for (int t = 0; t < T; t++) { void* rv; pthread_join(th[t], &rv); ASSERT((intptr_t)rv == 0, "worker does not throw"); }
    scheduled = 0;
  } else {
    for (cur_thread = 0; cur_thread < T; cur_thread++) {
      int64_t rc = BLOCKS ? w_worker_blocks(sh, cur_thread) : w_worker(sh, cur_thread);
      ASSERT(rc == 0, "worker does not throw");
    }
  }
#else
  verif_seq_var[0] = w_cur_addr(sh); verif_seq_var[1] = w_res_addr(sh);
#ifdef VERIF_CBMC
  verif_seq_rounds = ROUNDS;
#else
  verif_seq_rounds = 1; /* native generated-C runs (translation validation): threads run to completion one after another */
#endif
  verif_seq_begin();
  for (cur_thread = 0; cur_thread < T; cur_thread++) {
    verif_seq_thread_start();
    int64_t rc = BLOCKS ? w_worker_blocks(sh, cur_thread) : w_worker(sh, cur_thread);
    ASSERT(rc == 0, "worker does not throw");
#ifdef VERIF_CBMC
    ASSERT(verif_seq_ops <= MAXOPS, "BOUND: atomic operations per thread within the modelled maximum");
#endif
  }
  verif_seq_end();
#endif
  uint64_t r = w_result(sh);
  OBS(r);
  ASSERT(!oob, "callback never invoked outside [start,end)");
  ASSERT(!bad_thread, "thread numbers lie in [0,num_threads)");
  for (int i = 0; i < RANGE; i++) ASSERT(visits[i] <= 1, "no value is visited twice");
  if (!any) {
    ASSERT(r == START + RANGE, "no hit: returns end_value");
    for (int i = 0; i < RANGE; i++) ASSERT(visits[i] == 1, "no hit: every value visited exactly once");
  } else {
    ASSERT(r >= START && r < START + RANGE && truth[r - START], "hit: returned value is one whose callback returned true");
    ASSERT(r < START || r >= START + RANGE || visits[r - START] == 1, "hit: the returned value was actually visited");
  }
  ASSERT(w_cursor(sh) >= START + RANGE, "cursor ends at or beyond end_value (all workers have left their loops)");
  w_free(sh);
}
