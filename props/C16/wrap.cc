// C16 wrappers: the real worker templates of Tools.hh, driven thread by thread
#include "wrap.hh"
#ifdef VERIF_NATIVE_REAL
// Native replay build only: std::atomic inside Tools.hh is replaced by an instrumented equivalent (same layout, same
// seq_cst builtins) that calls verif_sched_point() before every atomic operation, so that the harness can run real
// threads under the exact schedule of a solver counterexample. The IR/CBMC build uses the unmodified std::atomic.
#include <atomic>
#include <functional>
#include <stdexcept>
#include <string>
#include <thread>
#include <vector>
#include <unordered_set>
#include "Encoding.hh"
#include "Strings.hh"
#include "Time.hh"
extern "C" void verif_sched_point(void);
namespace std {
template <typename T>
struct verif_atomic {
  T v;
  verif_atomic() = default;
  constexpr verif_atomic(T x) : v(x) {}
  verif_atomic(const verif_atomic&) = delete;
  T load(memory_order = memory_order_seq_cst) const { verif_sched_point(); return __atomic_load_n(&v, __ATOMIC_SEQ_CST); }
  void store(T x, memory_order = memory_order_seq_cst) { verif_sched_point(); __atomic_store_n(&v, x, __ATOMIC_SEQ_CST); }
  T exchange(T x, memory_order = memory_order_seq_cst) { verif_sched_point(); return __atomic_exchange_n(&v, x, __ATOMIC_SEQ_CST); }
  T fetch_add(T d, memory_order = memory_order_seq_cst) { verif_sched_point(); return __atomic_fetch_add(&v, d, __ATOMIC_SEQ_CST); }
  T fetch_sub(T d, memory_order = memory_order_seq_cst) { verif_sched_point(); return __atomic_fetch_sub(&v, d, __ATOMIC_SEQ_CST); }
  T fetch_and(T d, memory_order = memory_order_seq_cst) { verif_sched_point(); return __atomic_fetch_and(&v, d, __ATOMIC_SEQ_CST); }
  T fetch_or(T d, memory_order = memory_order_seq_cst) { verif_sched_point(); return __atomic_fetch_or(&v, d, __ATOMIC_SEQ_CST); }
  T fetch_xor(T d, memory_order = memory_order_seq_cst) { verif_sched_point(); return __atomic_fetch_xor(&v, d, __ATOMIC_SEQ_CST); }
  bool compare_exchange_strong(T& e, T d, memory_order = memory_order_seq_cst, memory_order = memory_order_seq_cst) {
    verif_sched_point(); return __atomic_compare_exchange_n(&v, &e, d, false, __ATOMIC_SEQ_CST, __ATOMIC_SEQ_CST);
  }
  bool compare_exchange_weak(T& e, T d, memory_order a = memory_order_seq_cst, memory_order b = memory_order_seq_cst) {
    return compare_exchange_strong(e, d, a, b);
  }
  operator T() const { return load(); }
  T operator=(T x) { store(x); return x; }
  T operator++() { return fetch_add(1) + 1; }
  T operator++(int) { return fetch_add(1); }
  T operator--() { return fetch_sub(1) - 1; }
  T operator--(int) { return fetch_sub(1); }
  T operator+=(T d) { return fetch_add(d) + d; }
  T operator-=(T d) { return fetch_sub(d) - d; }
};
} // namespace std
#define atomic verif_atomic
#endif
#include "Tools.hh"
using namespace phosg;
extern "C" uint8_t verif_cb(uint64_t v, uint64_t thread_num); // harness: records the visit, returns the truth bit
static bool cb(uint64_t v, size_t t) { return verif_cb(v, t) != 0; }
#ifndef C16_LAUNCH_ONLY
// Worker-level wrappers (unit 'tools'): they name the internal worker templates directly, so a refactoring of those
// internals can make this part fail to compile - the 'launch' unit (public API only, -DC16_LAUNCH_ONLY) is then still decided.
struct Shared {
  std::function<bool(uint64_t, size_t)> fn;
  std::atomic<uint64_t> cur;
  std::atomic<uint64_t> res;
  uint64_t end;
  uint64_t block;
};
WEXPORT Shared* w_mk(uint64_t start, uint64_t end, uint64_t block) {
  return new Shared{cb, {start}, {end}, end, block};
}
WEXPORT int64_t w_worker(Shared* s, uint64_t tn) {
  try {
    parallel_range_thread_fn<uint64_t>(s->fn, s->cur, s->res, s->end, tn);
    return 0;
  }
  W_CATCH_ALL
}
WEXPORT int64_t w_worker_blocks(Shared* s, uint64_t tn) {
  try {
    parallel_range_blocks_thread_fn<uint64_t>(s->fn, s->cur, s->res, s->end, s->block, tn);
    return 0;
  }
  W_CATCH_ALL
}
// plain (unscheduled) reads for the harness's final checks
WEXPORT uint64_t w_result(Shared* s) { return *reinterpret_cast<uint64_t*>(&s->res); }
WEXPORT uint64_t w_cursor(Shared* s) { return *reinterpret_cast<uint64_t*>(&s->cur); }
WEXPORT void* w_cur_addr(Shared* s) { return &s->cur; }
WEXPORT void* w_res_addr(Shared* s) { return &s->res; }
WEXPORT void w_free(Shared* s) { delete s; }
#endif
static_assert(sizeof(std::atomic<uint64_t>) == 8, "atomic word is a plain 64-bit word");

// ---- the launch/join logic of parallel_range itself (std::thread is modelled: see h_launch.c)
WEXPORT int64_t w_parallel_range(uint64_t start, uint64_t end, uint64_t nthreads, uint64_t* out) {
  try {
    *out = parallel_range<uint64_t>(cb, start, end, nthreads, nullptr);
    return 0;
  }
  W_CATCH_ALL
}
WEXPORT int64_t w_parallel_range_blocks(uint64_t start, uint64_t end, uint64_t block, uint64_t nthreads, uint64_t* out) {
  try {
    *out = parallel_range_blocks<uint64_t>(cb, start, end, block, nthreads, nullptr);
    return 0;
  }
  W_CATCH_ALL
}
// _multi: returns the set of hits, copied out in ascending order
WEXPORT int64_t w_parallel_range_multi(uint64_t start, uint64_t end, uint64_t block, uint64_t nthreads, uint64_t* out, uint64_t cap) {
  try {
    auto r = parallel_range_blocks_multi<uint64_t>(cb, start, end, block, nthreads, nullptr);
    uint64_t n = 0;
    for (uint64_t v = start; v < end; v++) {
      if (r.count(v)) {
        if (n >= cap) return W_CAPACITY;
        out[n++] = v;
      }
    }
    if (n != r.size()) return -200; // the set holds a value outside [start,end)
    return static_cast<int64_t>(n);
  }
  W_CATCH_ALL
}
