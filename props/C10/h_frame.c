/* C10 (needs props/C10/hooks/hash-block-hook.patch, an add-only #ifdef PHOSG_VERIF hook in Hash.cc): Merkle-Damgard framing of
 * MD5 / SHA-1 / SHA-256 for a message of LEN bytes with FULLY SYMBOLIC content: the sequence of 64-byte blocks handed to the
 * compression function equals  msg || 0x80 || 0* || bitlen64 (little endian for MD5, big endian for SHA)  cut into blocks
 * (reference padding written here). No assertion depends on the compression rounds. Cell: ALG, LEN. */
#include "harness.h"
int64_t w_md5(uint8_t* data, uint64_t n, uint32_t hex, uint32_t from_string, uint8_t* out, uint64_t cap);
int64_t w_sha1(uint8_t* data, uint64_t n, uint32_t hex, uint32_t from_string, uint8_t* out, uint64_t cap);
int64_t w_sha256(uint8_t* data, uint64_t n, uint32_t hex, uint32_t from_string, uint8_t* out, uint64_t cap);
#define PADDED (((LEN + 8) / 64 + 1) * 64)
#define MAXB 6 /* up to 320 padded bytes: message lengths <= 311 */
static uint8_t blocks[MAXB][64];
static unsigned nblocks, alg_ok = 1;
void STUB(verif_hash_block)(uint32_t alg, uint8_t* block) {
  if (alg != ALG) alg_ok = 0;
  if (nblocks < MAXB) for (unsigned i = 0; i < 64; i++) blocks[nblocks][i] = block[i];
  nblocks++;
}
void harness(void) {
  uint8_t msg[LEN + 1], out[40], buf[PADDED];
  in_bytes(msg, LEN);
  msg[LEN] = 0;
  uint32_t from_string = in_bool();
#if ALG == 0
  int64_t rc = w_md5(msg, LEN, 0, from_string, out, sizeof(out));
#elif ALG == 1
  int64_t rc = w_sha1(msg, LEN, 0, from_string, out, sizeof(out));
#else
  int64_t rc = w_sha256(msg, LEN, 0, from_string, out, sizeof(out));
#endif
  ASSERT(rc == (ALG == 0 ? 16 : ALG == 1 ? 20 : 32), "digest computed, no exception");
  /* reference padding */
  for (unsigned i = 0; i < PADDED; i++) buf[i] = 0;
  for (unsigned i = 0; i < LEN; i++) buf[i] = msg[i];
  buf[LEN] = 0x80;
  uint64_t bits = (uint64_t)LEN * 8;
  for (unsigned i = 0; i < 8; i++) {
    uint8_t b = (uint8_t)(bits >> (8 * i));
    if (ALG == 0) buf[PADDED - 8 + i] = b; else buf[PADDED - 1 - i] = b;
  }
  OBS(nblocks);
  ASSERT(alg_ok, "hook reports the right algorithm");
  ASSERT(nblocks == PADDED / 64, "number of compressed blocks == padded length / 64");
  if (nblocks == PADDED / 64)
    for (unsigned i = 0; i < PADDED; i++) ASSERT(blocks[i / 64][i % 64] == buf[i], "compressed blocks == msg || 0x80 || 0* || bit length");
}
