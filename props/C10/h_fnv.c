/* C10: FNV-1a 32/64 == the published recurrence  h = (h xor byte) * prime  (Fowler/Noll/Vo, draft-eastlake-fnv), offset basis as
 * default seed, for LEN symbolic bytes and a symbolic seed; all four overloads; chaining over a symbolic split point. */
#include "harness.h"
int64_t w_fnv1a32(uint32_t which, uint8_t* data, uint64_t n, uint32_t seed);
int64_t w_fnv1a64(uint32_t which, uint8_t* data, uint64_t n, uint64_t seed, uint64_t* out);
void harness(void) {
  uint8_t d[LEN + 1];
  in_bytes(d, LEN);
#ifdef WHICH
  uint32_t which = WHICH; /* cell: overload */
#else
  uint32_t which = (uint32_t)in_range(0, 3);
#endif
#ifdef K
  uint64_t k = K; /* cell: split point */
#else
  uint64_t k = in_range(0, LEN);
#endif
#if BITS == 32
  uint32_t seed = in_u32();
  uint32_t eff = (which >= 2) ? 0x811C9DC5u : seed;
  uint32_t h = eff;
  for (int i = 0; i < LEN; i++) { h ^= d[i]; h *= 0x01000193u; }
  int64_t r = w_fnv1a32(which, d, LEN, seed);
  OBS(r);
  ASSERT(r == (int64_t)(uint64_t)h, "fnv1a32 == published recurrence");
  /* chaining: hash of the suffix seeded with the hash of the prefix */
  int64_t p = w_fnv1a32(0, d, k, seed);
  ASSERT(p >= 0, "no exception");
  int64_t c = w_fnv1a32(0, d + k, LEN - k, (uint32_t)p);
  int64_t whole = w_fnv1a32(0, d, LEN, seed);
  ASSERT(c == whole, "fnv1a32(suffix, fnv1a32(prefix, seed)) == fnv1a32(whole, seed)");
#else
  uint64_t seed = in_u64();
  uint64_t eff = (which >= 2) ? 0xCBF29CE484222325ULL : seed;
  uint64_t h = eff;
  for (int i = 0; i < LEN; i++) { h ^= d[i]; h *= 0x00000100000001B3ULL; }
  uint64_t r = 0, p = 0, c = 0, whole = 0;
  ASSERT(w_fnv1a64(which, d, LEN, seed, &r) == 0, "no exception");
  OBS(r);
  ASSERT(r == h, "fnv1a64 == published recurrence");
  ASSERT(w_fnv1a64(0, d, k, seed, &p) == 0, "no exception");
  ASSERT(w_fnv1a64(0, d + k, LEN - k, p, &c) == 0, "no exception");
  ASSERT(w_fnv1a64(0, d, LEN, seed, &whole) == 0, "no exception");
  ASSERT(c == whole, "fnv1a64(suffix, fnv1a64(prefix, seed)) == fnv1a64(whole, seed)");
#endif
}
