// C10 wrappers: Hash.cc (crc32, fnv1a32/64, MD5, SHA1, SHA256 with bin()/hex()); Strings.cc supplies StringWriter/string_printf.
#include "wrap.hh"
#include "Strings.cc"
#include "Hash.cc"
using namespace phosg;

WEXPORT int64_t w_crc32(const uint8_t* data, size_t n, uint32_t seed) {
  try { return static_cast<int64_t>(static_cast<uint64_t>(crc32(data, n, seed))); }
  W_CATCH_ALL
}
WEXPORT int64_t w_crc32_default(const uint8_t* data, size_t n) {
  try { return static_cast<int64_t>(static_cast<uint64_t>(crc32(data, n))); }
  W_CATCH_ALL
}
// which: 0 = (ptr, size, seed), 1 = (std::string, seed), 2 = (ptr, size) default seed, 3 = (std::string) default seed
WEXPORT int64_t w_fnv1a32(int which, const uint8_t* data, size_t n, uint32_t seed) {
  try {
    uint32_t r;
    if (which == 0) r = fnv1a32(data, n, seed);
    else if (which == 1) r = fnv1a32(std::string(reinterpret_cast<const char*>(data), n), seed);
    else if (which == 2) r = fnv1a32(data, n);
    else r = fnv1a32(std::string(reinterpret_cast<const char*>(data), n));
    return static_cast<int64_t>(static_cast<uint64_t>(r));
  }
  W_CATCH_ALL
}
WEXPORT int64_t w_fnv1a64(int which, const uint8_t* data, size_t n, uint64_t seed, uint64_t* out) {
  try {
    if (which == 0) *out = fnv1a64(data, n, seed);
    else if (which == 1) *out = fnv1a64(std::string(reinterpret_cast<const char*>(data), n), seed);
    else if (which == 2) *out = fnv1a64(data, n);
    else *out = fnv1a64(std::string(reinterpret_cast<const char*>(data), n));
    return 0;
  }
  W_CATCH_ALL
}
// digest wrappers: hex == 0 -> bin(), hex == 1 -> hex(); from_string selects the std::string constructor
template <typename H>
static int64_t digest(const uint8_t* data, size_t n, int hex, int from_string, uint8_t* out, size_t cap) {
  if (from_string) {
    H h(std::string(reinterpret_cast<const char*>(data), n));
    return w_copy_out(hex ? h.hex() : h.bin(), out, cap);
  }
  H h(data, n);
  return w_copy_out(hex ? h.hex() : h.bin(), out, cap);
}
WEXPORT int64_t w_md5(const uint8_t* data, size_t n, int hex, int from_string, uint8_t* out, size_t cap) {
  try { return digest<MD5>(data, n, hex, from_string, out, cap); }
  W_CATCH_ALL
}
WEXPORT int64_t w_sha1(const uint8_t* data, size_t n, int hex, int from_string, uint8_t* out, size_t cap) {
  try { return digest<SHA1>(data, n, hex, from_string, out, cap); }
  W_CATCH_ALL
}
WEXPORT int64_t w_sha256(const uint8_t* data, size_t n, int hex, int from_string, uint8_t* out, size_t cap) {
  try { return digest<SHA256>(data, n, hex, from_string, out, cap); }
  W_CATCH_ALL
}
