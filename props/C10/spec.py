import os

ID = 'C10'
UNITS = {'hash': dict(wrap='wrap.cc', new_block=320)}
REPO = os.environ.get('VERIF_REPO', '/repo')
try:
    HOOK = 'verif_hash_block' in open(os.path.join(REPO, 'src', 'Hash.cc')).read()
except OSError:
    HOOK = False

BOUNDS = ('FNV-1a 32/64: all contents of length 0..3 (quick) / 0..6 (thorough), symbolic seed, four overloads, chaining at every split point. '
          'CRC-32: all contents of length 0..3 (quick) / 0..4 (thorough) with symbolic seed vs the bitwise definition; chaining over 4 (quick) / 6 '
          '(thorough) bytes, all split points. MD5/SHA-1/SHA-256 digest (bin and hex) vs reference implementations: message length concrete per cell '
          '(quick: 0,1,55,56,63,64,65; thorough: every length 0..130 for MD5, 0..3, 52..68, 116..130 for SHA-1/SHA-256, plus extra positions/patterns at '
          'the block boundaries), content = fixed fill pattern with ONE free byte (all 256 values) at a fixed position (the last byte unless stated). '
          'Padding/framing (PHOSG_VERIF hook) for every length 0..300 (quick: boundary lengths up to 120) with FULLY symbolic content.')
STUBS = [
    'vasprintf (h_md.c): exact model for sequences of "%08X" conversions of 32-bit values (8 upper-case hex digits each) - the only formats hex() uses; '
    'anything else is an assertion failure',
    'verif_hash_block(alg, block) (h_frame.c; only with the PHOSG_VERIF hook patch applied): records the blocks handed to the compression functions',
]
OUTSIDE = [
    'digest correctness for messages with more than one unconstrained byte: a digest miter with >= 3 free bytes gives no verdict (MD5, 600 s), so "for every '
    'byte string" is NOT decided for the compression functions; what is decided: each cell fixes a length and a fill pattern and leaves one byte free',
    'digest equality for lengths > 130 except the block-boundary lengths 183..193, 247..257, 300; framing for lengths > 300; the quantifier\'s "random inputs up to 1 MiB"',
    'without the hook patch the padding is only exercised through the digest cells (fixed pattern + one free byte)',
    'FNV/CRC contents longer than 6 bytes (the recurrences are byte-uniform; longer inputs repeat the same step)',
]
ASSUMPTIONS = [
    'reference implementations in h_md.c follow RFC 1321 / FIPS 180-4; their constant tables are generated from the defining formulas, and they were '
    'cross-checked against Python hashlib on the fill patterns (sanity only, not part of the verdict)',
    'little-endian host (PHOSG_LITTLE_ENDIAN path of SHA-1/SHA-256)',
]
ALGS = ((0, 'md5'), (1, 'sha1'), (2, 'sha256'))


def queries(tier):
    thorough = tier != 'quick'
    qs = []

    def q(name, harness, defs, unwind, timeout=600, mem_gb=6, desc='', bounds='', **kw):
        d = dict(name=name, unit='hash', harness=harness, defs=defs, unwind=unwind, timeout=timeout, mem_gb=mem_gb, desc=desc, bounds=bounds)
        d.update(kw)
        qs.append(d)

    # ---- FNV-1a -----------------------------------------------------------------------------------------------------------
    for bits in (32, 64):
        for n in range(0, 7 if thorough else 4):
            for k in range(0, n + 1):
                w = (k + n) % 4
                q('fnv%d_len%d_k%d' % (bits, n, k), 'h_fnv.c', {'BITS': bits, 'LEN': n, 'K': k, 'WHICH': w}, n + 20, 600, backend='kissat',
                  desc='fnv1a%d on %d symbolic bytes, symbolic seed, overload %d == recurrence h=(h^b)*prime; chaining at split %d' % (bits, n, w, k),
                  bounds='length %d, all contents, all seeds' % n)
    # ---- CRC-32 -------------------------------------------------------------------------------------------------------------
    for n in range(0, 5 if thorough else 4):
        q('crc_val_len%d' % n, 'h_crc.c', {'MODE': 0, 'LEN': n}, 10, 900, backend='kissat', cost=20 * n * n + 1,
          desc='crc32 on %d symbolic bytes, symbolic seed (and default seed) == bit-at-a-time reflected 0xEDB88320 definition' % n,
          bounds='length %d, all contents, all seeds' % n)
    cn = 6 if thorough else 4
    q('crc_chain_len%d' % cn, 'h_crc.c', {'MODE': 1, 'LEN': cn}, 10, 900, backend='kissat', cost=200,
      desc='crc32(suffix, crc32(prefix, seed)) == crc32(whole, seed), symbolic split point', bounds='length %d, all contents, seeds, split points' % cn)
    # ---- digests ----------------------------------------------------------------------------------------------------------------
    def dq(alg, an, n, pos=None, pat=0, hexm=0, fs=0):
        pos = (n - 1 if pos is None else pos) if n > 0 else 0
        nm = '%s_len%d_pos%d_pat%d%s%s' % (an, n, pos, pat, '_hex' if hexm else '', '_str' if fs else '')
        if any(x['name'] == nm for x in qs):
            return
        # translation validation (same generated C for every cell of a harness) on the boundary lengths only in the thorough tier
        tv = (not thorough) or n in (0, 1, 3, 55, 56, 63, 64, 65, 119, 120, 128, 130)
        q(nm, 'h_md.c', {'ALG': alg, 'LEN': n, 'POS': pos, 'PAT': pat, 'HEX': hexm, 'FROM_STRING': fs}, max(200, n + 80), 900, cost=30 + n // 2, tv=tv,
          desc='%s %s of a %d-byte message (fill pattern %d, byte %d free over all 256 values, %s constructor) == reference implementation (RFC 1321 / FIPS 180-4)'
               % (an, 'hex()' if hexm else 'bin()', n, pat, pos, 'std::string' if fs else 'pointer'),
          bounds='length %d, one free byte at position %d' % (n, pos))
    for alg, an in ALGS:
        if not thorough:
            for n in (0, 1, 55, 56, 63, 64, 65):
                dq(alg, an, n)
            dq(alg, an, 3, hexm=1)
            dq(alg, an, 56, pos=0, fs=1, pat=2)
        else:
            lens = range(0, 131) if alg == 0 else list(range(0, 4)) + list(range(52, 69)) + list(range(116, 131))
            for n in lens:
                dq(alg, an, n, pat=n % 4)
            for n in (55, 56, 57, 63, 64, 65, 119, 120, 128):
                dq(alg, an, n, pos=0, pat=(n + 1) % 4)
                if n > 64:
                    dq(alg, an, n, pos=63, pat=(n + 2) % 4)
                    dq(alg, an, n, pos=64, pat=(n + 3) % 4)
            for n in (183, 184, 191, 192, 193, 247, 248, 255, 256, 257, 300):   # four- and five-block messages (statement: lengths 0..300)
                dq(alg, an, n, pat=n % 4)
            for n in (3, 56, 64):
                dq(alg, an, n, hexm=1)
                dq(alg, an, n, fs=1, pat=2)
    # ---- framing (needs the hook) ---------------------------------------------------------------------------------------------------
    if HOOK:
        for alg, an in ALGS:
            for n in (range(0, 301) if thorough else (0, 1, 55, 56, 57, 63, 64, 65, 119, 120)):
                q('%s_frame_len%d' % (an, n), 'h_frame.c', {'ALG': alg, 'LEN': n}, max(200, n + 80), 600, flags=['--slice-formula'], cost=10, tv=(not thorough) or n % 16 == 0 or n in (55, 56, 119, 120),
                  desc='%s: blocks handed to the compression function == msg || 0x80 || 0* || bitlen64 for a fully symbolic %d-byte message (both constructors)' % (an, n),
                  bounds='length %d, all contents' % n)
    return qs
