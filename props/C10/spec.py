ID = 'C10'
UNITS = {'hash': dict(wrap='wrap.cc', new_block=320)}
BOUNDS = ''
STUBS = []
OUTSIDE = []
ASSUMPTIONS = []

def queries(tier):
    qs = []
    def q(name, harness, defs, unwind, timeout=300, mem_gb=6, desc='', bounds='', **kw):
        d = dict(name=name, unit='hash', harness=harness, defs=defs, unwind=unwind, timeout=timeout, mem_gb=mem_gb, desc=desc, bounds=bounds)
        d.update(kw)
        qs.append(d)
    for bits in (32, 64):
        for n in (0, 2, 6):
            q('fnv%d_len%d' % (bits, n), 'h_fnv.c', {'BITS': bits, 'LEN': n}, n + 18, 300)
    for n in (0, 2, 4):
        q('crc_val_len%d' % n, 'h_crc.c', {'MODE': 0, 'LEN': n}, 10, 300)
    q('crc_chain_len4', 'h_crc.c', {'MODE': 1, 'LEN': 4}, 10, 300)
    for alg, an in ((0, 'md5'), (1, 'sha1'), (2, 'sha256')):
        q('%s_len0' % an, 'h_md.c', {'ALG': alg, 'LEN': 0}, 200, 300)
        q('%s_len3' % an, 'h_md.c', {'ALG': alg, 'LEN': 3}, 200, 300)
        q('%s_len56' % an, 'h_md.c', {'ALG': alg, 'LEN': 56}, 200, 300)
        q('%s_len3_hex' % an, 'h_md.c', {'ALG': alg, 'LEN': 3, 'HEX': 1}, 200, 300)
    return qs
