/* C10: CRC-32 (ISO-HDLC / zlib): reflected polynomial 0xEDB88320, init and final xor 0xFFFFFFFF, bit-at-a-time definition
 * (no table) as reference. MODE 0: value for LEN symbolic bytes + symbolic seed (seed = running CRC, as in zlib's crc32(crc, ..)).
 * MODE 1: chaining over a symbolic split point. */
#include "harness.h"
int64_t w_crc32(uint8_t* data, uint64_t n, uint32_t seed);
int64_t w_crc32_default(uint8_t* data, uint64_t n);
static uint32_t ref_crc(const uint8_t* d, int n, uint32_t seed) {
  uint32_t c = ~seed;
  for (int i = 0; i < n; i++) {
    c ^= d[i];
    for (int b = 0; b < 8; b++) c = (c >> 1) ^ (0xEDB88320u & (0u - (c & 1u)));
  }
  return ~c;
}
void harness(void) {
  uint8_t d[LEN + 1];
  in_bytes(d, LEN);
  uint32_t seed = in_u32();
#if MODE == 0
  int64_t r = w_crc32(d, LEN, seed);
  OBS(r);
  ASSERT(r == (int64_t)(uint64_t)ref_crc(d, LEN, seed), "crc32 == bitwise definition");
  int64_t r0 = w_crc32_default(d, LEN);
  ASSERT(r0 == (int64_t)(uint64_t)ref_crc(d, LEN, 0), "crc32 with the default seed == bitwise definition from 0");
#else
  uint64_t k = in_range(0, LEN);
  int64_t p = w_crc32(d, k, seed);
  ASSERT(p >= 0, "no exception");
  int64_t c = w_crc32(d + k, LEN - k, (uint32_t)p);
  int64_t whole = w_crc32(d, LEN, seed);
  OBS(whole);
  ASSERT(c == whole, "crc32(suffix, crc32(prefix, seed)) == crc32(whole, seed)");
#endif
}
