/* C10: MD5 (RFC 1321), SHA-1 and SHA-256 (FIPS 180-4) digests vs reference implementations written here from the standards
 * (constant tables generated from their definitions: floor(2^32 |sin i|), cube/square roots of primes), including the
 * Merkle-Damgard padding (0x80, zeros, 64-bit bit length; little endian for MD5, big endian for SHA).
 * Cell: ALG (0 md5, 1 sha1, 2 sha256), LEN = message length, PAT = fill pattern, FROM_STRING = constructor overload,
 * HEX = compare hex() (exact vasprintf model for sequences of %08X, below) instead of bin().
 * Symbolic: ONE byte of the message: value, and position in [0, LEN) unless the cell fixes POS (NFREE = 0: fully concrete message; the verdict is then
 * a concrete evaluation by the solver's constant propagation). A digest miter with >= 3 free bytes is beyond the solver. */
#include <stdarg.h>
#include <stdlib.h>
#include "harness.h"
/* vasprintf = the shared exact hex model engine/rt/stub_printf.h (literals, %[0][width]X ...: zero- AND space-padded widths, so a
 * changed format specifier in hex() is decided, not reported as unmodelled); 64 hex digits + NUL fit VERIF_PRINTF_CAP. */
#define VERIF_PRINTF_CAP 72
#include "stub_printf.h"
int64_t w_md5(uint8_t* data, uint64_t n, uint32_t hex, uint32_t from_string, uint8_t* out, uint64_t cap);
int64_t w_sha1(uint8_t* data, uint64_t n, uint32_t hex, uint32_t from_string, uint8_t* out, uint64_t cap);
int64_t w_sha256(uint8_t* data, uint64_t n, uint32_t hex, uint32_t from_string, uint8_t* out, uint64_t cap);
#ifndef PAT
#define PAT 0
#endif
#ifndef FROM_STRING
#define FROM_STRING 0
#endif
#ifndef HEX
#define HEX 0
#endif
#ifndef NFREE
#define NFREE 1
#endif
#define PADDED (((LEN + 8) / 64 + 1) * 64)
/* present only when hooks/hash-block-hook.patch is applied to the tree; unused here */
void STUB(verif_hash_block)(uint32_t alg, uint8_t* block) { (void)alg; (void)block; }
static const uint32_t MD5_T[64] = {
  0xD76AA478u, 0xE8C7B756u, 0x242070DBu, 0xC1BDCEEEu,
  0xF57C0FAFu, 0x4787C62Au, 0xA8304613u, 0xFD469501u,
  0x698098D8u, 0x8B44F7AFu, 0xFFFF5BB1u, 0x895CD7BEu,
  0x6B901122u, 0xFD987193u, 0xA679438Eu, 0x49B40821u,
  0xF61E2562u, 0xC040B340u, 0x265E5A51u, 0xE9B6C7AAu,
  0xD62F105Du, 0x02441453u, 0xD8A1E681u, 0xE7D3FBC8u,
  0x21E1CDE6u, 0xC33707D6u, 0xF4D50D87u, 0x455A14EDu,
  0xA9E3E905u, 0xFCEFA3F8u, 0x676F02D9u, 0x8D2A4C8Au,
  0xFFFA3942u, 0x8771F681u, 0x6D9D6122u, 0xFDE5380Cu,
  0xA4BEEA44u, 0x4BDECFA9u, 0xF6BB4B60u, 0xBEBFBC70u,
  0x289B7EC6u, 0xEAA127FAu, 0xD4EF3085u, 0x04881D05u,
  0xD9D4D039u, 0xE6DB99E5u, 0x1FA27CF8u, 0xC4AC5665u,
  0xF4292244u, 0x432AFF97u, 0xAB9423A7u, 0xFC93A039u,
  0x655B59C3u, 0x8F0CCC92u, 0xFFEFF47Du, 0x85845DD1u,
  0x6FA87E4Fu, 0xFE2CE6E0u, 0xA3014314u, 0x4E0811A1u,
  0xF7537E82u, 0xBD3AF235u, 0x2AD7D2BBu, 0xEB86D391u,
};
static const uint32_t SHA256_K[64] = {
  0x428A2F98u, 0x71374491u, 0xB5C0FBCFu, 0xE9B5DBA5u, 0x3956C25Bu, 0x59F111F1u, 0x923F82A4u, 0xAB1C5ED5u,
  0xD807AA98u, 0x12835B01u, 0x243185BEu, 0x550C7DC3u, 0x72BE5D74u, 0x80DEB1FEu, 0x9BDC06A7u, 0xC19BF174u,
  0xE49B69C1u, 0xEFBE4786u, 0x0FC19DC6u, 0x240CA1CCu, 0x2DE92C6Fu, 0x4A7484AAu, 0x5CB0A9DCu, 0x76F988DAu,
  0x983E5152u, 0xA831C66Du, 0xB00327C8u, 0xBF597FC7u, 0xC6E00BF3u, 0xD5A79147u, 0x06CA6351u, 0x14292967u,
  0x27B70A85u, 0x2E1B2138u, 0x4D2C6DFCu, 0x53380D13u, 0x650A7354u, 0x766A0ABBu, 0x81C2C92Eu, 0x92722C85u,
  0xA2BFE8A1u, 0xA81A664Bu, 0xC24B8B70u, 0xC76C51A3u, 0xD192E819u, 0xD6990624u, 0xF40E3585u, 0x106AA070u,
  0x19A4C116u, 0x1E376C08u, 0x2748774Cu, 0x34B0BCB5u, 0x391C0CB3u, 0x4ED8AA4Au, 0x5B9CCA4Fu, 0x682E6FF3u,
  0x748F82EEu, 0x78A5636Fu, 0x84C87814u, 0x8CC70208u, 0x90BEFFFAu, 0xA4506CEBu, 0xBEF9A3F7u, 0xC67178F2u,
};
static const uint32_t SHA256_H0[8] = {
  0x6A09E667u, 0xBB67AE85u, 0x3C6EF372u, 0xA54FF53Au, 0x510E527Fu, 0x9B05688Cu, 0x1F83D9ABu, 0x5BE0CD19u,
};
static const uint32_t SHA1_K[4] = {
  0x5A827999u, 0x6ED9EBA1u, 0x8F1BBCDCu, 0xCA62C1D6u,
};

static uint32_t rotl(uint32_t x, unsigned s) { return (x << s) | (x >> (32u - s)); }
static uint32_t rotr(uint32_t x, unsigned s) { return (x >> s) | (x << (32u - s)); }

/* padding: returns the padded message in buf[PADDED] */
static void pad(const uint8_t* msg, uint8_t* buf, int big_endian_length) {
  for (unsigned i = 0; i < PADDED; i++) buf[i] = 0;
  for (unsigned i = 0; i < LEN; i++) buf[i] = msg[i];
  buf[LEN] = 0x80;
  uint64_t bits = (uint64_t)LEN * 8;
  for (unsigned i = 0; i < 8; i++) {
    uint8_t b = (uint8_t)(bits >> (8 * i));
    if (big_endian_length) buf[PADDED - 1 - i] = b; else buf[PADDED - 8 + i] = b;
  }
}

/* RFC 1321 section 3.4: four rounds of 16 operations [abcd k s i], registers rotate abcd -> dabc -> cdab -> bcda */
static void ref_md5(const uint8_t* msg, uint8_t* out) {
  static const uint8_t S[4][4] = {{7, 12, 17, 22}, {5, 9, 14, 20}, {4, 11, 16, 23}, {6, 10, 15, 21}};
  uint8_t buf[PADDED];
  pad(msg, buf, 0);
  uint32_t st[4] = {0x67452301u, 0xefcdab89u, 0x98badcfeu, 0x10325476u};
  for (unsigned off = 0; off < PADDED; off += 64) {
    uint32_t X[16], v[4];
    for (unsigned j = 0; j < 16; j++)
      X[j] = (uint32_t)buf[off + 4 * j] | ((uint32_t)buf[off + 4 * j + 1] << 8) | ((uint32_t)buf[off + 4 * j + 2] << 16) | ((uint32_t)buf[off + 4 * j + 3] << 24);
    for (unsigned j = 0; j < 4; j++) v[j] = st[j];
    for (unsigned i = 0; i < 64; i++) {
      unsigned r = i / 16;
      uint32_t* a = &v[(64 - i) % 4]; /* the register written in step i */
      uint32_t b = v[(65 - i) % 4], c = v[(66 - i) % 4], d = v[(67 - i) % 4];
      uint32_t f; unsigned k;
      if (r == 0) { f = (b & c) | (~b & d); k = i; }                 /* F(X,Y,Z) = XY v not(X) Z */
      else if (r == 1) { f = (b & d) | (c & ~d); k = (1 + 5 * i) % 16; } /* G(X,Y,Z) = XZ v Y not(Z) */
      else if (r == 2) { f = b ^ c ^ d; k = (5 + 3 * i) % 16; }       /* H = X xor Y xor Z */
      else { f = c ^ (b | ~d); k = (7 * i) % 16; }                    /* I = Y xor (X v not(Z)) */
      *a = b + rotl(*a + f + X[k] + MD5_T[i], S[r][i % 4]);
    }
    for (unsigned j = 0; j < 4; j++) st[j] += v[j];
  }
  for (unsigned j = 0; j < 4; j++) for (unsigned b = 0; b < 4; b++) out[4 * j + b] = (uint8_t)(st[j] >> (8 * b));
}

/* FIPS 180-4 section 6.1 */
static void ref_sha1(const uint8_t* msg, uint8_t* out) {
  uint8_t buf[PADDED];
  pad(msg, buf, 1);
  uint32_t H[5] = {0x67452301u, 0xefcdab89u, 0x98badcfeu, 0x10325476u, 0xc3d2e1f0u};
  for (unsigned off = 0; off < PADDED; off += 64) {
    uint32_t W[80];
    for (unsigned t = 0; t < 16; t++)
      W[t] = ((uint32_t)buf[off + 4 * t] << 24) | ((uint32_t)buf[off + 4 * t + 1] << 16) | ((uint32_t)buf[off + 4 * t + 2] << 8) | (uint32_t)buf[off + 4 * t + 3];
    for (unsigned t = 16; t < 80; t++) W[t] = rotl(W[t - 3] ^ W[t - 8] ^ W[t - 14] ^ W[t - 16], 1);
    uint32_t a = H[0], b = H[1], c = H[2], d = H[3], e = H[4];
    for (unsigned t = 0; t < 80; t++) {
      uint32_t f;
      if (t < 20) f = (b & c) ^ (~b & d);               /* Ch */
      else if (t < 40 || t >= 60) f = b ^ c ^ d;         /* Parity */
      else f = (b & c) ^ (b & d) ^ (c & d);              /* Maj */
      uint32_t T = rotl(a, 5) + f + e + SHA1_K[t / 20] + W[t];
      e = d; d = c; c = rotl(b, 30); b = a; a = T;
    }
    H[0] += a; H[1] += b; H[2] += c; H[3] += d; H[4] += e;
  }
  for (unsigned j = 0; j < 5; j++) for (unsigned b = 0; b < 4; b++) out[4 * j + b] = (uint8_t)(H[j] >> (24 - 8 * b));
}

/* FIPS 180-4 section 6.2 */
static void ref_sha256(const uint8_t* msg, uint8_t* out) {
  uint8_t buf[PADDED];
  pad(msg, buf, 1);
  uint32_t H[8];
  for (unsigned j = 0; j < 8; j++) H[j] = SHA256_H0[j];
  for (unsigned off = 0; off < PADDED; off += 64) {
    uint32_t W[64];
    for (unsigned t = 0; t < 16; t++)
      W[t] = ((uint32_t)buf[off + 4 * t] << 24) | ((uint32_t)buf[off + 4 * t + 1] << 16) | ((uint32_t)buf[off + 4 * t + 2] << 8) | (uint32_t)buf[off + 4 * t + 3];
    for (unsigned t = 16; t < 64; t++) {
      uint32_t s0 = rotr(W[t - 15], 7) ^ rotr(W[t - 15], 18) ^ (W[t - 15] >> 3);
      uint32_t s1 = rotr(W[t - 2], 17) ^ rotr(W[t - 2], 19) ^ (W[t - 2] >> 10);
      W[t] = s1 + W[t - 7] + s0 + W[t - 16];
    }
    uint32_t a = H[0], b = H[1], c = H[2], d = H[3], e = H[4], f = H[5], g = H[6], h = H[7];
    for (unsigned t = 0; t < 64; t++) {
      uint32_t S1 = rotr(e, 6) ^ rotr(e, 11) ^ rotr(e, 25);
      uint32_t ch = (e & f) ^ (~e & g);
      uint32_t T1 = h + S1 + ch + SHA256_K[t] + W[t];
      uint32_t S0 = rotr(a, 2) ^ rotr(a, 13) ^ rotr(a, 22);
      uint32_t maj = (a & b) ^ (a & c) ^ (b & c);
      uint32_t T2 = S0 + maj;
      h = g; g = f; f = e; e = d + T1; d = c; c = b; b = a; a = T1 + T2;
    }
    H[0] += a; H[1] += b; H[2] += c; H[3] += d; H[4] += e; H[5] += f; H[6] += g; H[7] += h;
  }
  for (unsigned j = 0; j < 8; j++) for (unsigned b = 0; b < 4; b++) out[4 * j + b] = (uint8_t)(H[j] >> (24 - 8 * b));
}

void harness(void) {
  uint8_t msg[LEN + 1], ref[32], out[72];
  for (unsigned i = 0; i < LEN; i++) {
#if PAT == 0
    msg[i] = (uint8_t)(i * 37u + 11u);
#elif PAT == 1
    msg[i] = 0x00;
#elif PAT == 2
    msg[i] = 0xFF;
#else
    msg[i] = 0x80;
#endif
  }
  msg[LEN] = 0;
#if NFREE >= 1 && LEN > 0
#ifdef POS
  msg[(POS) < LEN ? (POS) : LEN - 1] = in_u8(); /* cell: concrete position of the free byte */
#else
  uint64_t pos = in_range(0, LEN - 1);
  msg[pos] = in_u8();
#endif
#endif
#if ALG == 0
  const unsigned dl = 16;
  ref_md5(msg, ref);
  int64_t rc = w_md5(msg, LEN, HEX, FROM_STRING, out, sizeof(out));
#elif ALG == 1
  const unsigned dl = 20;
  ref_sha1(msg, ref);
  int64_t rc = w_sha1(msg, LEN, HEX, FROM_STRING, out, sizeof(out));
#else
  const unsigned dl = 32;
  ref_sha256(msg, ref);
  int64_t rc = w_sha256(msg, LEN, HEX, FROM_STRING, out, sizeof(out));
#endif
  OBS(rc);
#if HEX
  ASSERT(rc == (int64_t)(2 * dl), "hex() has two characters per digest byte, no exception");
  if (rc == (int64_t)(2 * dl))
    for (unsigned i = 0; i < dl; i++) {
      uint8_t hi = ref[i] >> 4, lo = ref[i] & 15;
      OBS(out[2 * i]); OBS(out[2 * i + 1]);
      ASSERT(out[2 * i] == (hi < 10 ? '0' + hi : 'A' + hi - 10) && out[2 * i + 1] == (lo < 10 ? '0' + lo : 'A' + lo - 10), "hex() == upper-case hex of the standard digest");
    }
#else
  ASSERT(rc == (int64_t)dl, "bin() has the digest length, no exception");
  if (rc == (int64_t)dl)
    for (unsigned i = 0; i < dl; i++) { OBS(out[i]); ASSERT(out[i] == ref[i], "bin() == standard digest"); }
#endif
}
