/* C17 (3): token classification Arguments(vector<string>) -> parse().  NTOK tokens with concrete lengths L0,L1,L2 (cell),
 * token bytes symbolic (all values but NUL).  Reference classifier (from the documented grammar):
 *   "-" and "--" and everything not starting with '-'  -> positional, in order
 *   "--name" / "--name=value" (split at the first '=' at or after index 2; name may be empty) -> named[name] += value|""
 *   "-abc"  -> named["a"] += "", named["b"] += "", named["c"] += ""   (one flag per character)
 * The parsed object is interrogated with ONE query per solver run (concrete per cell, so that the wrapper's control flow
 * is concrete): QKIND 1 = positional.at(QIDX); QKIND 2 = named.at(key).at(QIDX) for a SYMBOLIC key of KLEN bytes chosen
 * independently of the tokens (so absent names are covered as well). Together with positional.size() and named.size()
 * (checked in every run) the queries over all (QIDX, KLEN) pin down both containers completely: every token is classified
 * exactly once, in order, and nothing is marked used. */
#include "harness.h"
#define TOKW 6
#define MAXREC 10
int64_t w_classify(uint8_t* toks, uint64_t* lens, uint64_t ntok, uint32_t kind, uint64_t idx, uint8_t* name, uint64_t namelen, uint64_t* info, uint8_t* text_out);
#ifndef KLEN
#define KLEN 0
#endif
#ifndef L1
#define L1 0
#endif
#ifndef L2
#define L2 0
#endif
#ifndef K0
#define K0 0
#endif
#ifndef K1
#define K1 0
#endif
#ifndef K2
#define K2 0
#endif

struct ent { int kind; int idx; int nl; uint8_t name[TOKW]; int tl; uint8_t text[TOKW]; };

static int same(const uint8_t* a, int al, const uint8_t* b, int bl) {
  if (al != bl) return 0;
  for (int i = 0; i < al; i++) if (a[i] != b[i]) return 0;
  return 1;
}

void harness(void) {
  static const int L[3] = {L0, L1, L2};
  uint8_t toks[3 * TOKW];
  uint64_t lens[3];
  memset(toks, 0, sizeof(toks));
  static const int K[3] = {K0, K1, K2};
  for (int t = 0; t < NTOK; t++) {
    lens[t] = L[t];
    for (int i = 0; i < L[t]; i++) {
      /* token kinds (cell): 0 = every byte symbolic; 1 = "--" then symbolic bytes; 2 = 'x' then symbolic bytes;
       * 3 = the concrete flag group "-abc"; 4 = the concrete flag group "-aaa" (same flag repeated);
       * 5 = the first L bytes of the concrete text "--a=b"; 6 = the first L bytes of the concrete text "pq" */
      int sym = K[t] == 0 || ((K[t] == 1 && i >= 2) || (K[t] == 2 && i >= 1));
      if (sym) { toks[t * TOKW + i] = in_u8(); ASSUME(toks[t * TOKW + i] != 0); }
      else if (K[t] == 1) toks[t * TOKW + i] = '-';
      else if (K[t] == 2) toks[t * TOKW + i] = 'x';
      else if (K[t] == 5) toks[t * TOKW + i] = (uint8_t)"--a=b"[i];
      else if (K[t] == 6) toks[t * TOKW + i] = (uint8_t)"pq"[i];
      else toks[t * TOKW + i] = (i == 0) ? '-' : (K[t] == 3 ? (uint8_t)('a' + i - 1) : 'a');
    }
  }
  /* reference classification */
  struct ent e[MAXREC]; int ne = 0, npos = 0;
  for (int t = 0; t < NTOK; t++) {
    const uint8_t* s = toks + t * TOKW; int n = L[t];
    if (n >= 1 && s[0] == '-' && n >= 2 && s[1] == '-' && n >= 3) {
      int eq = -1;
      for (int i = 2; i < n; i++) if (eq < 0 && s[i] == '=') eq = i;
      int nend = eq < 0 ? n : eq;
      e[ne].kind = 2; e[ne].nl = nend - 2; e[ne].tl = eq < 0 ? 0 : n - eq - 1;
      for (int i = 2; i < nend; i++) e[ne].name[i - 2] = s[i];
      for (int i = eq + 1; eq >= 0 && i < n; i++) e[ne].text[i - eq - 1] = s[i];
      ne++;
    } else if (n >= 2 && s[0] == '-' && s[1] != '-') {
      for (int i = 1; i < n; i++) { e[ne].kind = 2; e[ne].nl = 1; e[ne].name[0] = s[i]; e[ne].tl = 0; ne++; }
    } else {
      e[ne].kind = 1; e[ne].idx = npos++; e[ne].nl = 0; e[ne].tl = n;
      for (int i = 0; i < n; i++) e[ne].text[i] = s[i];
      ne++;
    }
  }
  /* index of each named entry among the entries of the same name */
  for (int i = 0; i < ne; i++) if (e[i].kind == 2) {
    int k = 0;
    for (int j = 0; j < i; j++) if (e[j].kind == 2 && same(e[j].name, e[j].nl, e[i].name, e[i].nl)) k++;
    e[i].idx = k;
  }

  int ndistinct = 0;
  for (int i = 0; i < ne; i++) if (e[i].kind == 2 && e[i].idx == 0) ndistinct++;

  uint8_t key[TOKW] = {0};
  for (int i = 0; i < KLEN; i++) key[i] = in_u8(); /* any bytes, NUL included */
  /* reference answer to the query */
  int ref = -1, nsame = 0;
  for (int i = 0; i < ne; i++) {
    if (QKIND == 1 && e[i].kind == 1 && e[i].idx == QIDX) ref = i;
    if (QKIND == 2 && e[i].kind == 2 && same(e[i].name, e[i].nl, key, KLEN)) { nsame++; if (e[i].idx == QIDX) ref = i; }
  }
  uint64_t info[4] = {0, 0, 0, 0};
  uint8_t text[TOKW] = {0};
  int64_t r = w_classify(toks, lens, NTOK, QKIND, QIDX, key, KLEN, info, text);
  OBS(r); OBS(info[0]); OBS(info[1]); OBS(info[2]); OBS(info[3]);
  ASSERT(info[0] == (uint64_t)npos, "number of positional arguments equals the reference's");
  ASSERT(info[1] == (uint64_t)ndistinct, "number of distinct option names equals the reference's");
  if (ref < 0) {
    ASSERT(r == -1, "no such stored argument (index past the end / name never given) => out_of_range");
    if (QKIND == 2 && nsame > 0) ASSERT(info[2] == (uint64_t)nsame, "the name has as many values as the reference");
  } else {
    ASSERT(r >= 0, "the reference entry is stored");
    if (r >= 0) {
      struct ent R = e[ref]; /* copy: CBMC 6.11 mis-reads through a pointer to a member of e[symbolic] (see NOTES.md) */
      ASSERT(same(text, (int)r, R.text, R.tl), "stored text equals the reference classifier's");
      if (QKIND == 2) ASSERT(info[2] == (uint64_t)nsame, "the name has as many values as the reference");
      ASSERT(info[3] == 0, "a freshly parsed argument is not marked used");
    }
  }
}
