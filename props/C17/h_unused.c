/* C17 (4): used-flag bookkeeping.  assert_none_unused throws invalid_argument iff some supplied argument was never read.
 * The command line is fixed per cell (LIST), the SUBSET of getters called before assert_none_unused is symbolic (mask):
 *   LIST 0: p --a=1 q --b -cd     arguments: p(bit0) a(bit1) q(bit2) b(bit3) c(bit4) d(bit5); bits 6,7 read absent arguments
 *   LIST 1: --x=1 r --x=2         arguments: x#0,x#1 (bit0, get_multi reads both) r(bit1); bit 2 reads an absent name
 *   LIST 2: one string  p 'q r' --a="1 2" -b   (split_args first): p(bit0) "q r"(bit1) a(bit2) b(bit3); bit 4 absent
 * vasprintf (message formatting in assert_none_unused) is stubbed with a fixed text. */
#include "harness.h"
#include <stdlib.h>
int64_t w_unused(uint32_t list, uint64_t mask);
#ifdef VERIF_NATIVE_REAL
int vasprintf(char** outp, const char* fmt, __builtin_va_list va) {
#else
uint32_t X_vasprintf(uint8_t* outp_, uint8_t* fmt, uint8_t* va) {
  char** outp = (char**)outp_;
#endif
  static const char text[] = "msg";
  char* buf = (char*)malloc(sizeof(text));
  ASSUME(buf != 0);
  for (unsigned i = 0; i < sizeof(text); i++) buf[i] = text[i];
  *outp = buf;
  return (int)(sizeof(text) - 1);
}

void harness(void) {
  static const uint64_t need[3] = {0x3F, 0x3, 0xF}; /* bits that read a supplied argument */
  static const uint64_t all[3] = {0xFF, 0x7, 0x1F};
  uint64_t mask = in_u64() & all[LIST];
  int64_t r = w_unused(LIST, mask);
  OBS(mask); OBS(r);
  if ((mask & need[LIST]) == need[LIST]) {
    ASSERT(r == 0, "every supplied argument was read => assert_none_unused passes");
  } else {
    ASSERT(r == -2, "some supplied argument was never read => assert_none_unused throws invalid_argument");
  }
}
