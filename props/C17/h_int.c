/* C17 (1): Arguments::parse_int<RetT> range kernel.  TYPE (0 u8,1 u16,2 u32,3 u64,4 i8,5 i16,6 i32,7 i64) and LEN (text
 * length) are concrete per cell; the text bytes (NUL-free), the format, and everything strtoull does are symbolic.
 * strtoull is a CONTRACT stub: it may return any 64-bit value and any end pointer in [text, text+strlen(text)]; when it
 * consumes nothing it returns 0 (C11 7.22.1.4p8). Numeral text -> value is the C library's job and is not modelled. */
#include "harness.h"
int64_t w_parse_int(uint32_t type, uint32_t fmt, uint8_t* text, uint64_t n, int64_t* out);

static uint8_t text[LEN + 1];
static int calls, base_seen, text_ok;
static uint64_t st_value, st_end;

uint64_t STUB(verif_strtoull)(uint8_t* s, uint8_t* endp, uint32_t base) {
  calls++;
  base_seen = (int)base;
  text_ok = 1;
  for (int i = 0; i <= LEN; i++) text_ok &= (s[i] == text[i]); /* receives the NUL-terminated argument text */
  st_end = in_range(0, LEN);
  st_value = in_u64();
  if (st_end == 0) st_value = 0;
  *(uint8_t**)endp = s + st_end;
  return st_value;
}

void harness(void) {
  in_bytes(text, LEN);
  text[LEN] = 0;
  for (int i = 0; i < LEN; i++) ASSUME(text[i] != 0);
  uint32_t fmt = (uint32_t)in_range(0, 4);
  int64_t out = 0x5555;
  int64_t r = w_parse_int(TYPE, fmt, text, LEN, &out);
  OBS(r); OBS(out); OBS(calls);

  if (fmt > 3) {
    ASSERT(r == -4 && calls == 0, "an invalid format selector is a logic_error");
    return;
  }
  static const int bases[4] = {0, 16, 10, 8}; /* DEFAULT (auto), HEX, DECIMAL, OCTAL */
  ASSERT(calls == 1, "the text is converted exactly once");
  ASSERT(base_seen == bases[fmt], "conversion uses the base of the requested format");
  ASSERT(text_ok, "conversion is applied to the argument text");

  /* reference: does the converted value fit RetT?  64-bit types accept every 64-bit value (property: any numeral of
   * magnitude below 2^63; larger magnitudes are outside the claim). */
  uint64_t u = st_value;
  int64_t s = (int64_t)u;
  int fits; int64_t expect;
  switch (TYPE) {
    case 0: fits = u <= 0xFFull; expect = (int64_t)(uint8_t)u; break;
    case 1: fits = u <= 0xFFFFull; expect = (int64_t)(uint16_t)u; break;
    case 2: fits = u <= 0xFFFFFFFFull; expect = (int64_t)(uint32_t)u; break;
    case 3: fits = 1; expect = (int64_t)u; break;
    case 4: fits = s >= -128 && s <= 127; expect = (int64_t)(int8_t)u; break;
    case 5: fits = s >= -32768 && s <= 32767; expect = (int64_t)(int16_t)u; break;
    case 6: fits = s >= -2147483648ll && s <= 2147483647ll; expect = (int64_t)(int32_t)u; break;
    default: fits = 1; expect = s; break;
  }
  int complete = (st_end != 0) && (st_end == LEN);
  if (complete && fits) {
    ASSERT(r == 0, "a complete numeral that fits the type is accepted");
    ASSERT(out == expect, "the returned value is the converted value");
    if (fits) ASSERT(out == s || TYPE < 4, "signed result equals the numeral's value");
  } else {
    ASSERT(r == -2, "nothing consumed, trailing bytes or a value outside the type's range => invalid_argument");
  }
}
