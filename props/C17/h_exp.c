#include "harness.h"
#define TOKW 4
int64_t w_exp_count(uint8_t* toks, uint64_t* lens, uint64_t ntok);
void harness(void) {
  uint8_t toks[3 * TOKW];
  uint64_t lens[3];
  memset(toks, 0, sizeof(toks));
  lens[0] = L0;
  for (int i = 0; i < L0; i++) { toks[i] = in_u8(); ASSUME(toks[i] != 0); }
  int64_t r = w_exp_count(toks, lens, 1);
  ASSERT(r >= 0, "x");
}
