/* C17 (4b): typed getters through a parsed Arguments object, and their effect on assert_none_unused.
 * Cell: one token (kind K0 / length L0 as in h_classify.c), one getter OP (table below), positional index POS or a SYMBOLIC
 * key of KLEN bytes.  Token bytes, key bytes and everything strtoull/strtod do are symbolic.
 *   OP 0 get<string>(POS)            1 get<string>(POS,false)      2 get<string>(key)        3 get<string>(key,true)
 *      4 get<bool>(key)              5 get_multi<string>(key)      6 get<int32_t>(POS)        7 get<int32_t>(key)
 *      8 get<int32_t>(POS,77)        9 get<int32_t>(key,77)       10 get<double>(POS)        11 get<double>(key,2.5)
 *     12 get_multi<int16_t>(key)    13 get<uint8_t>(key,HEX)     14 get_multi<double>(key)  15 get_multi<float>(key)
 * Reference (property text): a getter returns the value iff the argument is present and its text is a complete numeral
 * that fits / a complete floating literal; a malformed text => invalid_argument; an absent argument => out_of_range, or
 * the supplied default / "" / false / empty list for the getter forms that have one. Reading marks the argument used;
 * assert_none_unused afterwards throws iff something is still unread.
 * Single-value getters on a name that was given more than once are not specified by the property: excluded (ASSUME). */
#include "harness.h"
#include <stdlib.h>
#define TOKW 6
int64_t w_get(uint8_t* toks, uint64_t* lens, uint64_t ntok, uint32_t op, uint64_t pos, uint8_t* key, uint64_t keylen, int64_t* res);
#ifndef KLEN
#define KLEN 0
#endif
#ifndef POS
#define POS 0
#endif

/* ---- stubs (contract models, see h_int.c / h_float.c) */
#define MAXCALL 3
static int calls, base_seen[MAXCALL], len_seen[MAXCALL];
static uint8_t text_seen[MAXCALL][TOKW + 1];
static uint64_t st_value[MAXCALL], st_end[MAXCALL];
static void record(uint8_t* s, uint32_t base) {
  int c = calls < MAXCALL ? calls : MAXCALL - 1;
  int n = 0;
  while (n < TOKW && s[n] != 0) { text_seen[c][n] = s[n]; n++; }
  len_seen[c] = n;
  base_seen[c] = (int)base;
  st_end[c] = in_range(0, (uint64_t)n);
  st_value[c] = in_u64();
  if (st_end[c] == 0) st_value[c] = 0;
  calls++;
}
uint64_t STUB(verif_strtoull)(uint8_t* s, uint8_t* endp, uint32_t base) {
  record(s, base);
  int c = calls - 1 < MAXCALL ? calls - 1 : MAXCALL - 1;
  *(uint8_t**)endp = s + st_end[c];
  return st_value[c];
}
double STUB(verif_strtod)(uint8_t* s, uint8_t* endp) {
  record(s, 99);
  int c = calls - 1 < MAXCALL ? calls - 1 : MAXCALL - 1;
  *(uint8_t**)endp = s + st_end[c];
  double d;
  memcpy(&d, &st_value[c], 8);
  return d;
}
#ifdef VERIF_NATIVE_REAL
int vasprintf(char** outp, const char* fmt, __builtin_va_list va) {
#else
uint32_t X_vasprintf(uint8_t* outp_, uint8_t* fmt, uint8_t* va) {
  char** outp = (char**)outp_;
#endif
  static const char text[] = "msg";
  char* buf = (char*)malloc(sizeof(text));
  ASSUME(buf != 0);
  for (unsigned i = 0; i < sizeof(text); i++) buf[i] = text[i];
  *outp = buf;
  return (int)(sizeof(text) - 1);
}

struct ent { int kind; int idx; int nl; uint8_t name[TOKW]; int tl; uint8_t text[TOKW]; int used; };
static int same(const uint8_t* a, int al, const uint8_t* b, int bl) {
  if (al != bl) return 0;
  for (int i = 0; i < al; i++) if (a[i] != b[i]) return 0;
  return 1;
}
static int64_t pack(const uint8_t* t, int n) {
  int64_t v = n & 0xFF;
  for (int k = 0; k < n && k < 6; k++) v |= (int64_t)t[k] << (8 * (k + 1));
  return v;
}
#define NAMED_OP (OP == 2 || OP == 3 || OP == 4 || OP == 5 || OP == 7 || OP == 9 || OP == 11 || OP == 12 || OP == 13 || OP == 14 || OP == 15)
#define MAXE 6

void harness(void) {
  uint8_t toks[TOKW];
  uint64_t lens[1] = {L0};
  memset(toks, 0, sizeof(toks));
  for (int i = 0; i < L0; i++) {
    int sym = K0 == 0 || ((K0 == 1 && i >= 2) || (K0 == 2 && i >= 1));
    if (sym) { toks[i] = in_u8(); ASSUME(toks[i] != 0); }
    else if (K0 == 1) toks[i] = '-';
    else if (K0 == 2) toks[i] = 'x';
    else toks[i] = (i == 0) ? '-' : (K0 == 3 ? (uint8_t)('a' + i - 1) : 'a');
  }
  uint8_t key[TOKW] = {0};
  for (int i = 0; i < KLEN; i++) key[i] = in_u8();

  /* reference classification of the single token (same grammar as h_classify.c) */
  struct ent e[MAXE]; int ne = 0, npos = 0;
  {
    const uint8_t* s = toks; int n = L0;
    if (n >= 3 && s[0] == '-' && s[1] == '-') {
      int eq = -1;
      for (int i = 2; i < n; i++) if (eq < 0 && s[i] == '=') eq = i;
      int nend = eq < 0 ? n : eq;
      e[0].kind = 2; e[0].nl = nend - 2; e[0].tl = eq < 0 ? 0 : n - eq - 1; e[0].used = 0;
      for (int i = 2; i < nend; i++) e[0].name[i - 2] = s[i];
      for (int i = eq + 1; eq >= 0 && i < n; i++) e[0].text[i - eq - 1] = s[i];
      ne = 1;
    } else if (n >= 2 && s[0] == '-' && s[1] != '-') {
      for (int i = 1; i < n; i++) { e[i - 1].kind = 2; e[i - 1].nl = 1; e[i - 1].name[0] = s[i]; e[i - 1].tl = 0; e[i - 1].used = 0; }
      ne = n - 1;
    } else {
      e[0].kind = 1; e[0].idx = 0; e[0].nl = 0; e[0].tl = n; e[0].used = 0;
      for (int i = 0; i < n; i++) e[0].text[i] = s[i];
      ne = 1; npos = 1;
    }
  }
  /* the entries the getter addresses, in order */
  int hit[MAXE], nhit = 0;
  for (int i = 0; i < ne; i++) {
    int m = NAMED_OP ? (e[i].kind == 2 && same(e[i].name, e[i].nl, key, KLEN)) : (e[i].kind == 1 && e[i].idx == POS);
    hit[i] = m;
    nhit += m;
  }
  if (!(OP == 5 || OP == 12 || OP == 14 || OP == 15)) ASSUME(nhit <= 1); /* single-value getter on a repeated name: not specified */
  struct ent T; memset(&T, 0, sizeof(T)); /* first addressed entry (copied: see NOTES.md on CBMC and &e[sym].member) */
  { int got = 0; for (int i = 0; i < ne; i++) if (hit[i] && !got) { T = e[i]; got = 1; } }

  int64_t res[3] = {0x55, 0x55, 0x55};
  int64_t rc = w_get(toks, lens, 1, OP, POS, key, KLEN, res);
  OBS(rc); OBS(res[0]); OBS(res[2]); OBS(calls);
  ASSERT(rc == 0, "nothing but the getter's own exception escapes");

  int64_t xc = 0, xv = 0; /* expected code / value */
  int check_value = 1;
  int expect_calls = 0;
  static const double dflt = 2.5;
  int64_t dflt_bits; memcpy(&dflt_bits, &dflt, 8);
  if (OP <= 4 && OP != 4) { /* string getters */
    if (nhit) { xv = pack(T.text, T.tl); for (int i = 0; i < ne; i++) if (hit[i]) e[i].used = 1; }
    else if (OP == 0 || OP == 3) xc = -1;
    else xv = pack(key, 0);
  } else if (OP == 4) {
    xv = nhit ? 1 : 0;
    for (int i = 0; i < ne; i++) if (hit[i]) e[i].used = 1;
  } else if (OP == 5) {
    xv = nhit;
    for (int i = 0; i < ne; i++) if (hit[i]) e[i].used = 1;
  } else if (OP == 12 || OP == 14 || OP == 15) {
    /* every value is parsed in order; a value is marked used after it parsed; the first malformed one throws */
    int k = 0;
    xv = nhit;
    for (int i = 0; i < ne; i++) if (hit[i] && xc == 0) {
      int c = k < MAXCALL ? k : MAXCALL - 1;
      int64_t s = (int64_t)st_value[c];
      int ok = st_end[c] != 0 && st_end[c] == (uint64_t)e[i].tl && (OP != 12 || (s >= -32768 && s <= 32767));
      ASSERT(k < calls && same(text_seen[c], len_seen[c], e[i].text, e[i].tl) && base_seen[c] == (OP == 12 ? 0 : 99), "value text converted with base auto (integers) / strtod (floating)");
      if (ok) e[i].used = 1; else xc = -2;
      k++;
    }
    expect_calls = k;
  } else { /* single numeric getters */
    int has_default = (OP == 8 || OP == 9 || OP == 11);
    if (!nhit) {
      if (has_default) xv = (OP == 11) ? dflt_bits : 77; else xc = -1;
    } else {
      for (int i = 0; i < ne; i++) if (hit[i]) e[i].used = 1; /* the text is read before it is parsed */
      expect_calls = 1;
      int complete = st_end[0] != 0 && st_end[0] == (uint64_t)T.tl;
      ASSERT(calls >= 1 && same(text_seen[0], len_seen[0], T.text, T.tl), "the argument's text is what gets converted");
      if (OP == 10 || OP == 11) {
        ASSERT(base_seen[0] == 99, "floating getter uses strtod");
        if (complete) { xv = (int64_t)st_value[0]; double d; memcpy(&d, &st_value[0], 8); if (d != d) check_value = 0; } else xc = -2;
      } else if (OP == 13) {
        ASSERT(base_seen[0] == 16, "HEX format converts with base 16");
        if (complete && st_value[0] <= 0xFF) xv = (int64_t)st_value[0]; else xc = -2;
      } else {
        ASSERT(base_seen[0] == 0, "DEFAULT format converts with base auto");
        int64_t s = (int64_t)st_value[0];
        if (complete && s >= -2147483648ll && s <= 2147483647ll) xv = s; else xc = -2;
      }
    }
  }
  ASSERT(calls == expect_calls, "strtoull/strtod is called once per parsed value and never for absent arguments");
  ASSERT(res[0] == xc, "getter outcome (value / invalid_argument / out_of_range / default) as specified");
  if (xc == 0 && res[0] == 0 && check_value) ASSERT(res[1] == xv, "getter value as specified");
  int unread = 0;
  for (int i = 0; i < ne; i++) if (!e[i].used) unread = 1;
  ASSERT(res[2] == (unread ? -2 : 0), "assert_none_unused throws invalid_argument iff some argument was never read");
}
