/* C17 (5): split_args(s) vs a reference shell-style tokenizer.  LEN concrete per cell, all 256 byte values except NUL.
 * Reference grammar (POSIX-shell word splitting restricted to blanks, quotes and backslash; no expansions):
 *   - blanks (space, tab) outside quotes separate words;
 *   - '...' and "..." group characters (blanks included) into the current word; the quote characters are removed;
 *     a quoted section -- even an empty one -- makes a word exist ('' is one empty word);
 *   - backslash (outside or inside either kind of quotes: phosg documents no distinction) makes the next character
 *     literal; a trailing backslash or an unterminated quote is an error (runtime_error). */
#include "harness.h"
int64_t w_split_args(uint8_t* in, uint64_t n, uint8_t* out, uint64_t max_tokens, uint64_t tokcap);
#define MAXTOK (LEN + 1)
#define TOKCAP (LEN + 1)

void harness(void) {
  uint8_t in[LEN + 1];
  uint8_t out[MAXTOK * (TOKCAP + 1)];
  in_bytes(in, LEN);
  for (int i = 0; i < LEN; i++) ASSUME(in[i] != 0);
#ifdef FIRST
  in[0] = FIRST; /* cell: the first byte is concrete */
#endif
#ifdef QUOTES
  for (int i = 0; i < LEN; i++) in[i] = QUOTES; /* concrete cell: the quote character is given by the cell */
#endif
  memset(out, 0, sizeof(out));
  int64_t r = w_split_args(in, LEN, out, MAXTOK, TOKCAP);
  OBS(r);

  /* reference */
  uint8_t rt[MAXTOK][TOKCAP]; int rl[MAXTOK]; int nt = 0;
  int in_word = 0, err = 0; uint8_t quote = 0;
  for (int z = 0; z < LEN; z++) {
    uint8_t c = in[z];
    int literal = 0;
    if (quote) {
      if (c == quote) { quote = 0; continue; }
      if (c == '\\') { z++; if (z >= LEN) { err = 1; break; } c = in[z]; }
      literal = 1;
    } else if (c == '"' || c == '\'') {
      quote = c;
      if (!in_word) { in_word = 1; rl[nt] = 0; nt++; } /* a quoted section starts (or continues) a word */
      continue;
    } else if (c == '\\') {
      z++; if (z >= LEN) { err = 1; break; } c = in[z]; literal = 1;
    }
    if (!literal && (c == ' ' || c == '\t')) { in_word = 0; continue; }
    if (!in_word) { in_word = 1; rl[nt] = 0; nt++; }
    rt[nt - 1][rl[nt - 1]++] = c;
  }
  if (!err && quote) err = 1;

  if (err) {
    ASSERT(r == -5, "incomplete escape / unterminated quote => runtime_error");
  } else {
    ASSERT(r == nt, "number of words equals the reference tokenizer's");
    if (r == nt) {
      for (int i = 0; i < nt; i++) {
        ASSERT(out[i * (TOKCAP + 1)] == rl[i], "word length equals the reference");
        if (out[i * (TOKCAP + 1)] == rl[i])
          for (int k = 0; k < rl[i]; k++) ASSERT(out[i * (TOKCAP + 1) + 1 + k] == rt[i][k], "word bytes equal the reference");
      }
    }
  }
}
