// C17 wrappers: Arguments (Arguments.hh / Arguments.cc) and split_args (Strings.cc).
// strtoull / strtod as used by Arguments::parse_int / parse_float are redirected to verif_strtoull / verif_strtod (contract
// stubs defined in the harness) by a macro that is active only while Arguments.hh is read; everything else in the TU (and
// the native driver) keeps the C library's functions.
#include "wrap.hh"
#include <stdlib.h>
#include <cstdlib>
#include <optional>
#include <string>
#include <unordered_map>
#include <vector>
#include "Strings.hh"
extern "C" unsigned long long verif_strtoull(const char* s, char** end, int base) noexcept;
extern "C" double verif_strtod(const char* s, char** end) noexcept;
#define strtoull verif_strtoull
#define strtod verif_strtod
#define private public
#include "Arguments.hh"
#undef private
#undef strtoull
#undef strtod
#include "Strings.cc"
#include "Arguments.cc"
using namespace phosg;

// ---------------------------------------------------------------- (1) parse_int kernel
template <typename T>
static int64_t run_parse_int(const std::string& text, uint32_t fmt, int64_t* out) {
  static const std::string id("x");
  T v = Arguments::parse_int<T>(id, text, static_cast<Arguments::IntFormat>(fmt));
  *out = static_cast<int64_t>(v); // sign- resp. zero-extension of the returned RetT
  return 0;
}
// type: 0 u8, 1 u16, 2 u32, 3 u64, 4 i8, 5 i16, 6 i32, 7 i64
WEXPORT int64_t w_parse_int(uint32_t type, uint32_t fmt, const uint8_t* text, size_t n, int64_t* out) {
  try {
    std::string t(reinterpret_cast<const char*>(text), n);
    switch (type) {
      case 0: return run_parse_int<uint8_t>(t, fmt, out);
      case 1: return run_parse_int<uint16_t>(t, fmt, out);
      case 2: return run_parse_int<uint32_t>(t, fmt, out);
      case 3: return run_parse_int<uint64_t>(t, fmt, out);
      case 4: return run_parse_int<int8_t>(t, fmt, out);
      case 5: return run_parse_int<int16_t>(t, fmt, out);
      case 6: return run_parse_int<int32_t>(t, fmt, out);
      case 7: return run_parse_int<int64_t>(t, fmt, out);
      default: return -99;
    }
  }
  W_CATCH_ALL
}

// ---------------------------------------------------------------- (2) parse_float kernel
WEXPORT int64_t w_parse_float(uint32_t is_double, const uint8_t* text, size_t n, double* out) {
  try {
    static const std::string id("x");
    std::string t(reinterpret_cast<const char*>(text), n);
    if (is_double) {
      *out = Arguments::parse_float<double>(id, t);
    } else {
      *out = static_cast<double>(Arguments::parse_float<float>(id, t));
    }
    return 0;
  }
  W_CATCH_ALL
}

// ---------------------------------------------------------------- (5) split_args
// out: for each token one record of (1 + TOKCAP) bytes: length, bytes. Returns the number of tokens.
WEXPORT int64_t w_split_args(const uint8_t* in, size_t n, uint8_t* out, size_t max_tokens, size_t tokcap) {
  try {
    std::vector<std::string> r = split_args(std::string(reinterpret_cast<const char*>(in), n));
    if (r.size() > max_tokens) return W_CAPACITY;
    for (size_t i = 0; i < r.size(); i++) {
      if (r[i].size() > tokcap) return W_CAPACITY;
      out[i * (tokcap + 1)] = static_cast<uint8_t>(r[i].size());
      for (size_t k = 0; k < r[i].size(); k++) out[i * (tokcap + 1) + 1 + k] = static_cast<uint8_t>(r[i][k]);
    }
    return static_cast<int64_t>(r.size());
  }
  W_CATCH_ALL
}

// ---------------------------------------------------------------- (3) token classification, (4) getters + used flags
// Tokens arrive as ntok records of TOKW bytes (toks) with lengths lens[].
#ifndef TOKW
#define TOKW 4
#endif

static std::vector<std::string> make_tokens(const uint8_t* toks, const uint64_t* lens, size_t ntok) {
  std::vector<std::string> v;
  v.reserve(ntok);
  for (size_t i = 0; i < ntok; i++) v.emplace_back(reinterpret_cast<const char*>(toks + i * TOKW), lens[i]);
  return v;
}

// One stored argument of a parsed Arguments object: kind 1 = positional[idx], kind 2 = named.at(name)[idx].
// info[0] = positional.size(), info[1] = named.size(), info[2] = named.at(name).size() (kind 2), info[3] = used flag.
// Returns the text length (text copied to text_out, capacity TOKW) or W_OUT_OF_RANGE when there is no such argument.
static int64_t query_arg(Arguments& a, uint32_t kind, size_t idx, const uint8_t* name, size_t namelen, uint64_t* info, uint8_t* text_out) {
  info[0] = a.positional.size();
  info[1] = a.named.size();
  const Arguments::ArgText* t;
  if (kind == 1) {
    t = &a.positional.at(idx);
  } else {
    const auto& vals = a.named.at(std::string(reinterpret_cast<const char*>(name), namelen));
    info[2] = vals.size();
    t = &vals.at(idx);
  }
  info[3] = t->used;
  return w_copy_out(t->text, text_out, TOKW);
}

WEXPORT int64_t w_classify(const uint8_t* toks, const uint64_t* lens, size_t ntok, uint32_t kind, size_t idx, const uint8_t* name,
    size_t namelen, uint64_t* info, uint8_t* text_out) {
  try {
    Arguments a(make_tokens(toks, lens, ntok));
    return query_arg(a, kind, idx, name, namelen, info, text_out);
  }
  W_CATCH_ALL
}
// One getter call on a parsed Arguments object. op: see the table in h_get.c. Named getters use (key, keylen), positional ones
// pos. Returns 0 (value written to *val: integer value / double bits / string length | bytes<<8 / bool / count) or the W_* code
// of the exception that escaped the getter.
static const int32_t kDefaultInt = 77;
static const double kDefaultDouble = 2.5;
static int64_t pack_str(const std::string& s) {
  int64_t v = static_cast<int64_t>(s.size() & 0xFF);
  for (size_t k = 0; k < s.size() && k < 6; k++) v |= static_cast<int64_t>(static_cast<uint8_t>(s[k])) << (8 * (k + 1));
  return v;
}
static int64_t dbits(double d) {
  int64_t v;
  memcpy(&v, &d, 8);
  return v;
}
static int64_t run_getter(Arguments& a, uint32_t op, size_t pos, const std::string& key, int64_t* val) {
  try {
    switch (op) {
      case 0: *val = pack_str(a.get<std::string>(pos)); return 0;            // throw_if_missing defaults to true
      case 1: *val = pack_str(a.get<std::string>(pos, false)); return 0;
      case 2: *val = pack_str(a.get<std::string>(key)); return 0;            // throw_if_missing defaults to false
      case 3: *val = pack_str(a.get<std::string>(key, true)); return 0;
      case 4: *val = a.get<bool>(key.c_str()); return 0;
      case 5: *val = static_cast<int64_t>(a.get_multi<std::string>(key).size()); return 0;
      case 6: *val = a.get<int32_t>(pos); return 0;
      case 7: *val = a.get<int32_t>(key); return 0;
      case 8: *val = a.get<int32_t>(pos, kDefaultInt); return 0;
      case 9: *val = a.get<int32_t>(key, kDefaultInt); return 0;
      case 10: *val = dbits(a.get<double>(pos)); return 0;
      case 11: *val = dbits(a.get<double>(key, kDefaultDouble)); return 0;
      case 12: *val = static_cast<int64_t>(a.get_multi<int16_t>(key).size()); return 0;
      case 13: *val = a.get<uint8_t>(key, Arguments::IntFormat::HEX); return 0;
      case 14: *val = static_cast<int64_t>(a.get_multi<double>(key).size()); return 0;
      case 15: *val = static_cast<int64_t>(a.get_multi<float>(key).size()); return 0;
      default: return -99;
    }
  }
  W_CATCH_ALL
}

// Arguments(tokens); one getter; assert_none_unused.  res[0] = getter code, res[1] = getter value,
// res[2] = code of assert_none_unused (0 or W_INVALID_ARGUMENT).
WEXPORT int64_t w_get(const uint8_t* toks, const uint64_t* lens, size_t ntok, uint32_t op, size_t pos, const uint8_t* key, size_t keylen, int64_t* res) {
  try {
    Arguments a(make_tokens(toks, lens, ntok));
    std::string k(reinterpret_cast<const char*>(key), keylen);
    res[0] = run_getter(a, op, pos, k, &res[1]);
    try {
      a.assert_none_unused();
      res[2] = 0;
    } catch (const std::invalid_argument&) {
      res[2] = W_INVALID_ARGUMENT;
    }
    return 0;
  }
  W_CATCH_ALL
}

// Used-flag bookkeeping on a fixed command line (LIST selects it, see h_unused.c): bit i of mask = "call the getter that
// reads argument i". Returns the code of assert_none_unused.
WEXPORT int64_t w_unused(uint32_t list, uint64_t mask) {
  try {
    switch (list) {
      case 0: { // p --a=1 q --b -cd
        Arguments a(std::vector<std::string>{"p", "--a=1", "q", "--b", "-cd"});
        if (mask & 1) a.get<std::string>(0);
        if (mask & 2) a.get<std::string>("a");
        if (mask & 4) a.get<std::string>(1, false);
        if (mask & 8) a.get<bool>("b");
        if (mask & 16) a.get<bool>("c");
        if (mask & 32) a.get_multi<std::string>("d");
        if (mask & 64) a.get<std::string>(2, false);     // absent
        if (mask & 128) a.get<bool>("zz");                // absent
        a.assert_none_unused();
        return 0;
      }
      case 1: { // repeated option: only get_multi reads it (both values at once)
        Arguments a(std::vector<std::string>{"--x=1", "r", "--x=2"});
        if (mask & 1) a.get_multi<std::string>("x");
        if (mask & 2) a.get<std::string>(0);
        if (mask & 4) a.get_multi<std::string>("y");      // absent
        a.assert_none_unused();
        return 0;
      }
      default: { // the command line given as one string (split_args first)
        Arguments a(std::string("p 'q r' --a=\"1 2\" -b"));
        if (mask & 1) a.get<std::string>(0);
        if (mask & 2) a.get<std::string>(1);
        if (mask & 4) a.get<std::string>("a");
        if (mask & 8) a.get<bool>("b");
        if (mask & 16) a.get<std::string>(2, false);      // absent: "q r" is one token
        a.assert_none_unused();
        return 0;
      }
    }
  }
  W_CATCH_ALL
}
