// C17 wrappers: Arguments (Arguments.hh / Arguments.cc) and split_args (Strings.cc).
// strtoull / strtod as used by Arguments::parse_int / parse_float are redirected to verif_strtoull / verif_strtod (contract
// stubs defined in the harness) by a macro that is active only while Arguments.hh is read; everything else in the TU (and
// the native driver) keeps the C library's functions.
#include "wrap.hh"
#include <stdlib.h>
#include <cstdlib>
#include <optional>
#include <string>
#include <unordered_map>
#include <vector>
#include "Strings.hh"
extern "C" unsigned long long verif_strtoull(const char* s, char** end, int base) noexcept;
extern "C" double verif_strtod(const char* s, char** end) noexcept;
#define strtoull verif_strtoull
#define strtod verif_strtod
#define private public
#include "Arguments.hh"
#undef private
#undef strtoull
#undef strtod
#include "Strings.cc"
#include "Arguments.cc"
using namespace phosg;

// ---------------------------------------------------------------- (1) parse_int kernel
template <typename T>
static int64_t run_parse_int(const std::string& text, uint32_t fmt, int64_t* out) {
  static const std::string id("x");
  T v = Arguments::parse_int<T>(id, text, static_cast<Arguments::IntFormat>(fmt));
  *out = static_cast<int64_t>(v); // sign- resp. zero-extension of the returned RetT
  return 0;
}
// type: 0 u8, 1 u16, 2 u32, 3 u64, 4 i8, 5 i16, 6 i32, 7 i64
WEXPORT int64_t w_parse_int(uint32_t type, uint32_t fmt, const uint8_t* text, size_t n, int64_t* out) {
  try {
    std::string t(reinterpret_cast<const char*>(text), n);
    switch (type) {
      case 0: return run_parse_int<uint8_t>(t, fmt, out);
      case 1: return run_parse_int<uint16_t>(t, fmt, out);
      case 2: return run_parse_int<uint32_t>(t, fmt, out);
      case 3: return run_parse_int<uint64_t>(t, fmt, out);
      case 4: return run_parse_int<int8_t>(t, fmt, out);
      case 5: return run_parse_int<int16_t>(t, fmt, out);
      case 6: return run_parse_int<int32_t>(t, fmt, out);
      case 7: return run_parse_int<int64_t>(t, fmt, out);
      default: return -99;
    }
  }
  W_CATCH_ALL
}

// ---------------------------------------------------------------- (2) parse_float kernel
WEXPORT int64_t w_parse_float(uint32_t is_double, const uint8_t* text, size_t n, double* out) {
  try {
    static const std::string id("x");
    std::string t(reinterpret_cast<const char*>(text), n);
    if (is_double) {
      *out = Arguments::parse_float<double>(id, t);
    } else {
      *out = static_cast<double>(Arguments::parse_float<float>(id, t));
    }
    return 0;
  }
  W_CATCH_ALL
}

// ---------------------------------------------------------------- (5) split_args
// out: for each token one record of (1 + TOKCAP) bytes: length, bytes. Returns the number of tokens.
WEXPORT int64_t w_split_args(const uint8_t* in, size_t n, uint8_t* out, size_t max_tokens, size_t tokcap) {
  try {
    std::vector<std::string> r = split_args(std::string(reinterpret_cast<const char*>(in), n));
    if (r.size() > max_tokens) return W_CAPACITY;
    for (size_t i = 0; i < r.size(); i++) {
      if (r[i].size() > tokcap) return W_CAPACITY;
      out[i * (tokcap + 1)] = static_cast<uint8_t>(r[i].size());
      for (size_t k = 0; k < r[i].size(); k++) out[i * (tokcap + 1) + 1 + k] = static_cast<uint8_t>(r[i][k]);
    }
    return static_cast<int64_t>(r.size());
  }
  W_CATCH_ALL
}

// ---------------------------------------------------------------- (3) token classification, (4) getters + used flags
// Tokens arrive as ntok records of TOKW bytes (toks) with lengths lens[].
#ifndef TOKW
#define TOKW 4
#endif

static std::vector<std::string> make_tokens(const uint8_t* toks, const uint64_t* lens, size_t ntok) {
  std::vector<std::string> v;
  v.reserve(ntok);
  for (size_t i = 0; i < ntok; i++) v.emplace_back(reinterpret_cast<const char*>(toks + i * TOKW), lens[i]);
  return v;
}

// One stored argument of a parsed Arguments object: kind 1 = positional[idx], kind 2 = named.at(name)[idx].
// info[0] = positional.size(), info[1] = named.size(), info[2] = named.at(name).size() (kind 2), info[3] = used flag.
// Returns the text length (text copied to text_out, capacity TOKW) or W_OUT_OF_RANGE when there is no such argument.
static int64_t query_arg(Arguments& a, uint32_t kind, size_t idx, const uint8_t* name, size_t namelen, uint64_t* info, uint8_t* text_out) {
  info[0] = a.positional.size();
  info[1] = a.named.size();
  const Arguments::ArgText* t;
  if (kind == 1) {
    t = &a.positional.at(idx);
  } else {
    const auto& vals = a.named.at(std::string(reinterpret_cast<const char*>(name), namelen));
    info[2] = vals.size();
    t = &vals.at(idx);
  }
  info[3] = t->used;
  return w_copy_out(t->text, text_out, TOKW);
}

WEXPORT int64_t w_classify(const uint8_t* toks, const uint64_t* lens, size_t ntok, uint32_t kind, size_t idx, const uint8_t* name,
    size_t namelen, uint64_t* info, uint8_t* text_out) {
  try {
    Arguments a(make_tokens(toks, lens, ntok));
    return query_arg(a, kind, idx, name, namelen, info, text_out);
  }
  W_CATCH_ALL
}
WEXPORT int64_t w_exp_count(const uint8_t* toks, const uint64_t* lens, size_t ntok) {
  try {
    Arguments a(make_tokens(toks, lens, ntok));
    return a.positional.size() + 16 * a.named.size();
  }
  W_CATCH_ALL
}
