ID = 'C17'
UNITS = {'args': dict(wrap='wrap.cc', shim=True, new_block=64, cxxflags=['-DVERIF_UMAP_CAP=6']),
         # split_args: vector<string> of k words needs 32*pow2ceil(k) bytes from operator new
         'split64': dict(wrap='wrap.cc', shim=True, new_block=64, cxxflags=['-DVERIF_UMAP_CAP=6'], ir2c_flags=['--ptrdiff', '--flat-unions']),
         'split128': dict(wrap='wrap.cc', shim=True, new_block=128, cxxflags=['-DVERIF_UMAP_CAP=6'], ir2c_flags=['--ptrdiff', '--flat-unions'])}
UNITS['cls'] = dict(wrap='wrap.cc', shim=True, new_block=320, cxxflags=['-DVERIF_UMAP_CAP=4', '-DTOKW=6'], ir2c_flags=['--ptrdiff', '--flat-unions'], gen_defs=['VERIF_NEW_ZERO'])
FAST = ['--max-field-sensitivity-array-size', '512']
BOUNDS = ('parse_int<RetT>: all 8 integer types, format selector 0..4, text of 0..3 NUL-free bytes, strtoull result any 64-bit value and any end '
          'pointer; parse_float<float|double>: text 0..3 bytes, strtod result any bit pattern; split_args: every input of length 0..2 (all byte '
          'values but NUL) + the two concrete inputs \'\' and ""; token classification: one token of <= 2 symbolic bytes, "--" + 1..3 symbolic '
          'bytes, "x" + 2 symbolic bytes, the concrete flag groups -ab / -aa, and lists (p, <=2 symbolic bytes), (p, --?), (p, p, ?), queried '
          'with every positional index and symbolic option names of 0..3 bytes; typed getters: 14 getter forms on one such token; '
          'assert_none_unused: all subsets of getters on three fixed command lines (one given as a single string)')
STUBS = ['strtoull (as called by Arguments::parse_int; redirected to verif_strtoull in wrap.cc): CONTRACT stub - returns an arbitrary 64-bit value '
         'and an arbitrary end pointer in [text, text+strlen(text)]; nothing consumed => returns 0. The harness checks that it receives the '
         'argument text and the base of the requested format',
         'strtod (parse_float; redirected to verif_strtod): CONTRACT stub - arbitrary double (any bit pattern), arbitrary end pointer; nothing '
         'consumed => 0.0',
         'vasprintf (string_printf in error messages of positional getters and assert_none_unused): fixed text "msg"',
         'std::unordered_map: engine/shim/unordered_map (fixed capacity 4 resp. 6; iteration in insertion order). operator[] was added to '
         'the shim for this property. The real build used for translation validation / replay uses libstdc++\'s unordered_map']
OUTSIDE = ['numeral / floating literal TEXT -> value (that is strtoull / strtod): e.g. what strtoull returns on overflow. Consequence worth '
           'knowing: parse_int does not look at errno, so "99999999999999999999" (strtoull saturates to 2^64-1) is accepted as -1 by the signed '
           'getters and as 2^64-1 by uint64; the property statement only speaks about magnitudes below 2^63',
           'tokens containing NUL bytes (impossible from argv; Arguments(vector<string>) accepts them: the flag-group loop and the numeric '
           'getters stop at the first NUL)',
           'single-value getters on an option that was given more than once: the property does not say what they do (see NOTES.md, observation)',
           'token lists with two or more tokens that can both become named options with symbolic names (e.g. "--a" "--?"), symbolic flag groups of '
           'two or more letters ("-??" as 3 symbolic bytes), and split_args inputs longer than 2 bytes: measured out of reach (solver out of '
           'memory at 8-14 GB / no verdict in 10-15 min), see NOTES.md',
           'Arguments(argv, n) constructor (same parse() behind a trivial loop); get_multi<string> with a symbolic name']
ASSUMPTIONS = ['units cls: operator-new blocks are zero-filled in the model (gen_defs VERIF_NEW_ZERO, needed for CBMC constant folding): behaviour '
               'that depends on reading UNINITIALISED heap memory is not explored. The same harnesses run natively against the real ASan build '
               '(translation validation) on 60-300 pseudo-random inputs per query',
               'cbmc --max-field-sensitivity-array-size 512 for the cls unit',
               'harness reference models avoid `&array_of_struct[symbolic].member` pointers (CBMC 6.11 evaluates them wrongly, see NOTES.md)']
TNAMES = ['u8', 'u16', 'u32', 'u64', 'i8', 'i16', 'i32', 'i64']

def queries(tier):
    qs = []
    for t, nm in enumerate(TNAMES):
        for L in ([0, 2] if tier == 'quick' else [0, 1, 2, 3]):
            qs.append(dict(name='int_%s_len%d' % (nm, L), unit='args', harness='h_int.c', defs={'TYPE': t, 'LEN': L}, unwind=40, timeout=300, mem_gb=3,
                           tv_runs=100, desc='parse_int<%s> on a %d-byte text: format, bytes, strtoull value (full 64 bit) and end pointer symbolic' % (nm, L),
                           bounds='text length %d' % L))
    for d in (0, 1):
        for L in ([0, 2] if tier == 'quick' else [0, 1, 2, 3]):
            qs.append(dict(name='float_%s_len%d' % ('f64' if d else 'f32', L), unit='args', harness='h_float.c', defs={'IS_DOUBLE': d, 'LEN': L}, unwind=40, timeout=300, mem_gb=3,
                           tv_runs=100, desc='parse_float<%s> on a %d-byte text: bytes, strtod value (all bit patterns) and end pointer symbolic' % ('double' if d else 'float', L),
                           bounds='text length %d' % L))
    for L in ([0, 1] if tier == 'quick' else [0, 1, 2]):
        qs.append(dict(name='split_len%d' % L, unit='split64', harness='h_split.c', defs={'LEN': L}, unwind=L + 3, timeout=1500, mem_gb=10,
                       tv_runs=300, desc='split_args on %d symbolic bytes vs reference shell-style tokenizer' % L, bounds='input length %d, all byte values but NUL' % L))
    if True:
        # (quick: only the two quote openers - a quoted section holding the OTHER quote character needs 3 bytes)
        # length 3 with a concrete first byte (one cell per character class of the tokenizer; 'a' stands for an ordinary character)
        for f, nm in (((34, 'dq'), (39, 'sq'), (92, 'bs'), (32, 'sp'), (9, 'tab'), (97, 'a')) if tier == 'thorough' else ((34, 'dq'), (39, 'sq'))):
            qs.append(dict(name='split_len3_first_%s' % nm, unit='split64', harness='h_split.c', defs={'LEN': 3, 'FIRST': f}, unwind=6, timeout=1500, mem_gb=10,
                           tv_runs=200, desc='split_args on 3 bytes, first byte = %r, the other two symbolic, vs reference tokenizer' % chr(f), bounds='length 3, first byte %r' % chr(f)))
    # cheap concrete cells for the empty quoted argument ('' and ""): everything folds, sub-second; the symbolic LEN=2 query
    # above (thorough tier, minutes) is the real check, these keep the defect visible in the quick tier
    for q, nm in ((39, 'single'), (34, 'double')):
        qs.append(dict(name='split_empty_%s_quotes' % nm, unit='split64', harness='h_split.c', defs={'LEN': 2, 'QUOTES': q}, unwind=5, timeout=600, mem_gb=3,
                       tv_runs=2, desc='split_args on the concrete input of two %s quote characters vs reference tokenizer' % nm, bounds='one concrete input'))
    # token kinds: (kind, length); see h_classify.c
    S0, S1, S2 = (0, 0), (0, 1), (0, 2)
    LO1, LO2, LO3 = (1, 3), (1, 4), (1, 5)      # "--" + 1..3 symbolic bytes  (TOKW must be >= 5)
    P2, P3 = (2, 2), (2, 3)                     # 'x' + symbolic bytes
    F2, F2S = (3, 3), (4, 3)                    # "-ab", "-aa"
    CA, CAB, CP = (5, 3), (5, 5), (6, 1)        # concrete "--a", "--a=b", "p"
    cells = [(S0,), (S1,), (S2,), (LO1,), (LO2,), (P3,), (F2,), (F2S,), (CP, S2), (CP, LO1), (CP, CP, S1)]
    if tier == 'thorough':
        cells += [(LO3,), (S1, S1)]
    for toks_ in cells:
        nt = len(toks_)
        ls = [t[1] for t in toks_]
        d = {'NTOK': nt}
        for i, (k, l) in enumerate(toks_): d['L%d' % i] = l; d['K%d' % i] = k
        maxname = max([1] + [l - 2 for l in ls])          # flag names have length 1, --name up to len-2
        maxvals = sum(max(1, l - 1) for l in ls)          # "-ab" contributes len-1 values
        qlist = [(1, i, 0) for i in range(nt + 1)] + [(2, j, k) for k in range(0, maxname + 1) for j in range(min(maxvals, nt if k != 1 else maxvals) + 1)]
        if tier == 'quick':  # the decisive queries only: every positional index, first/second value of a 1-byte name, first value of the longest name
            qlist = [(1, i, 0) for i in range(nt + 1)] + [(2, 0, 1), (2, 1, 1)] + ([(2, 0, maxname)] if maxname > 1 else [])
        cname = '_'.join('%d%d' % t for t in toks_)
        for qk, qi, kl in qlist:
            dd = dict(d, QKIND=qk, QIDX=qi, KLEN=kl)
            qs.append(dict(name='classify_%s_q%d_%d_%d' % (cname, qk, qi, kl), unit='cls', harness='h_classify.c', defs=dd, unwind=7, timeout=600, mem_gb=3.5, flags=FAST,
                           tv_runs=60, desc='classification of %d tokens (kind,length) %s; query kind %d index %d key length %d' % (nt, toks_, qk, qi, kl), bounds='token kinds/lengths %s' % (toks_,)))
    # typed getters: (token kind, length) x op x (pos | key length)
    POS_OPS, NAMED_OPS = (0, 1, 6, 8, 10), (2, 3, 4, 7, 9, 11, 12, 13)   # op 5 (get_multi<string>): no verdict in 900 s; covered on concrete names by h_unused.c
    gcells = []
    for op in POS_OPS:
        for tk in ([S2] if tier == 'quick' else [S0, S2, P3]):
            for pos in (0, 1):
                gcells.append((tk, op, pos, 0))
    for op in NAMED_OPS:
        if tier == 'quick' and op == 4: continue   # get<bool> with a symbolic name: 540 s / 7 GB (thorough); concrete names in h_unused.c
        for tk in (([S2, LO3] if op in (2, 7, 11) else [S2]) if tier == 'quick' else ([S2] if op == 4 else [S2, LO1, LO2, LO3])):
            for kl in ([1] if (tier == 'quick' or op == 4) else [0, 1, 2]):
                gcells.append((tk, op, 0, kl))
    for op in (12,):
        gcells.append((F2S, op, 0, 1)); gcells.append((F2, op, 0, 1))
    # get_multi<double/float>: '--?=?'-shaped token (3 symbolic bytes) and the repeated flag '-aa' (two empty values)
    for op in ((14,) if tier == 'quick' else (14, 15)):
        for tk in ([LO3] if tier == 'quick' else [LO2, LO3, F2S]):
            gcells.append((tk, op, 0, 1))
    for (k, l), op, pos, kl in gcells:
        qs.append(dict(name='get_%d%d_op%d_p%d_k%d' % (k, l, op, pos, kl), unit='cls', harness='h_get.c', defs={'K0': k, 'L0': l, 'OP': op, 'POS': pos, 'KLEN': kl},
                       unwind=8, unwindset='strlen.0:34,verif_memcpy_loop.0:34,verif_memmove_loop.0:34,verif_memmove_loop.1:34', timeout=900, mem_gb=7 if (l >= 5 or op in (4, 12, 14, 15)) else 3.5, flags=FAST, tv_runs=100,
                       desc='getter op %d on one token (kind %d, length %d), pos %d / symbolic key of %d bytes, then assert_none_unused' % (op, k, l, pos, kl),
                       bounds='one token of kind/length (%d,%d)' % (k, l)))
    for l in (0, 1, 2):
        qs.append(dict(name='unused_list%d' % l, unit='cls', harness='h_unused.c', defs={'LIST': l}, unwind=28, timeout=900, mem_gb=3.5, flags=FAST, tv_runs=300,
                       desc='assert_none_unused after a symbolic subset of getters on fixed command line %d' % l, bounds='fixed command line, all subsets of getters'))
    return qs
