ID = 'C17'
UNITS = {'args': dict(wrap='wrap.cc', shim=True, new_block=64, cxxflags=['-DVERIF_UMAP_CAP=6']),
         # split_args: vector<string> of k words needs 32*pow2ceil(k) bytes from operator new
         'split64': dict(wrap='wrap.cc', shim=True, new_block=64, cxxflags=['-DVERIF_UMAP_CAP=6'], ir2c_flags=['--ptrdiff', '--flat-unions'], gen_defs=['VERIF_NEW_ZERO']),
         'split128': dict(wrap='wrap.cc', shim=True, new_block=128, cxxflags=['-DVERIF_UMAP_CAP=6'], ir2c_flags=['--ptrdiff', '--flat-unions'], gen_defs=['VERIF_NEW_ZERO'])}
UNITS['cls'] = dict(wrap='wrap.cc', shim=True, new_block=320, cxxflags=['-DVERIF_UMAP_CAP=4'], ir2c_flags=['--ptrdiff', '--flat-unions'], gen_defs=['VERIF_NEW_ZERO'])
FAST = ['--max-field-sensitivity-array-size', '512']
BOUNDS = ''
STUBS = []
OUTSIDE = []
ASSUMPTIONS = []
TNAMES = ['u8', 'u16', 'u32', 'u64', 'i8', 'i16', 'i32', 'i64']

def queries(tier):
    qs = []
    for t, nm in enumerate(TNAMES):
        for L in ([0, 2] if tier == 'quick' else [0, 1, 2, 3]):
            qs.append(dict(name='int_%s_len%d' % (nm, L), unit='args', harness='h_int.c', defs={'TYPE': t, 'LEN': L}, unwind=40, timeout=300, mem_gb=4,
                           tv_runs=100, desc='parse_int<%s> on a %d-byte text: format, bytes, strtoull value (full 64 bit) and end pointer symbolic' % (nm, L),
                           bounds='text length %d' % L))
    for d in (0, 1):
        for L in ([0, 2] if tier == 'quick' else [0, 1, 2, 3]):
            qs.append(dict(name='float_%s_len%d' % ('f64' if d else 'f32', L), unit='args', harness='h_float.c', defs={'IS_DOUBLE': d, 'LEN': L}, unwind=40, timeout=300, mem_gb=4,
                           tv_runs=100, desc='parse_float<%s> on a %d-byte text: bytes, strtod value (all bit patterns) and end pointer symbolic' % ('double' if d else 'float', L),
                           bounds='text length %d' % L))
    for L in ([0, 1, 2, 3] if tier == 'quick' else [0, 1, 2, 3, 4, 5]):
        qs.append(dict(name='split_len%d' % L, unit='split64' if L <= 3 else 'split128', harness='h_split.c', defs={'LEN': L}, unwind=L + 3, timeout=900, mem_gb=6, flags=FAST,
                       tv_runs=300, desc='split_args on %d symbolic bytes vs reference shell-style tokenizer' % L, bounds='input length %d, all byte values but NUL' % L))
    cells = [(1, (l,)) for l in range(4)] + [(2, (a, b)) for a in range(4) for b in range(4)]
    for nt, ls in cells:
        d = {'NTOK': nt}
        for i, l in enumerate(ls): d['L%d' % i] = l
        maxname = max([1] + [l - 2 for l in ls])          # flag names have length 1, --name up to len-2
        maxvals = sum(max(1, l - 1) for l in ls)          # "-ab" contributes len-1 values
        qlist = [(1, i, 0) for i in range(nt + 1)] + [(2, j, k) for k in range(0, maxname + 1) for j in range(maxvals + 1) if not (k != 1 and j >= nt + 1)]
        for qk, qi, kl in qlist:
            dd = dict(d, QKIND=qk, QIDX=qi, KLEN=kl)
            qs.append(dict(name='classify_%s_q%d_%d_%d' % ('_'.join(map(str, ls)), qk, qi, kl), unit='cls', harness='h_classify.c', defs=dd, unwind=6, timeout=900, mem_gb=8, flags=FAST,
                           tv_runs=60, desc='classification of %d tokens of lengths %s; query kind %d index %d key length %d' % (nt, ls, qk, qi, kl), bounds='token lengths %s, all byte values but NUL' % (ls,)))
    qs.append(dict(name='exp3', unit='cls', harness='h_exp.c', defs={'L0': 3}, unwind=6, timeout=900, mem_gb=8, flags=FAST))
    return qs
