/* C17 (2): Arguments::parse_float<float|double>.  IS_DOUBLE and LEN concrete per cell; text bytes (NUL-free) symbolic.
 * strtod is a CONTRACT stub: any double (all 2^64 bit patterns), any end pointer in [text, text+strlen(text)];
 * nothing consumed => returns 0 (C11 7.22.1.3p10). Literal text -> value is the C library's job and is not modelled. */
#include "harness.h"
int64_t w_parse_float(uint32_t is_double, uint8_t* text, uint64_t n, double* out);

static uint8_t text[LEN + 1];
static int calls, text_ok;
static uint64_t st_end;
static double st_value;

double STUB(verif_strtod)(uint8_t* s, uint8_t* endp) {
  calls++;
  text_ok = 1;
  for (int i = 0; i <= LEN; i++) text_ok &= (s[i] == text[i]);
  st_end = in_range(0, LEN);
  uint64_t bits = in_u64();
  if (st_end == 0) bits = 0;
  memcpy(&st_value, &bits, 8);
  *(uint8_t**)endp = s + st_end;
  return st_value;
}

void harness(void) {
  in_bytes(text, LEN);
  text[LEN] = 0;
  for (int i = 0; i < LEN; i++) ASSUME(text[i] != 0);
  double out = 0;
  int64_t r = w_parse_float(IS_DOUBLE, text, LEN, &out);
  OBS(r); OBS(calls);
  ASSERT(calls == 1 && text_ok, "the argument text is converted exactly once");
  int complete = (st_end != 0) && (st_end == LEN);
  if (complete) {
    ASSERT(r == 0, "a complete floating-point literal is accepted");
    double expect = IS_DOUBLE ? st_value : (double)(float)st_value;
    int both_nan = (expect != expect) && (out != out);
    uint64_t a, b;
    memcpy(&a, &expect, 8); memcpy(&b, &out, 8);
    ASSERT(both_nan || a == b, "the returned value is the converted value (rounded to float for float)");
    if (!both_nan) OBS(b);
  } else {
    ASSERT(r == -2, "nothing consumed or trailing bytes => invalid_argument");
  }
}
