ID = 'C09'
OPT = ['--ptrdiff', '--flat-unions']
# P: fast encoding (see props/C08/spec.py): -fno-inline + std::string::_M_create cut to a reported bound failure (all strings <= 15
# bytes) + deterministic pool allocator. X: exact encoding (CBMC malloc, inlined libstdc++), strings up to 63 bytes.
SSO = dict(wrap='wrap.cc', cxxflags=['-fno-inline'], cuts=['basic_stringIcSt11char_traitsIcESaIcEE9_M_createERmm$'], extra_c=['sso_bound.c'], ir2c_flags=OPT)
# P additionally uses --thread-br (engine/ir2c.py thread_target): clang routes parse_data_string's `return data` from inside the loop through the
# loop latch with a phi'd flag; CBMC merges there and the cursor `in` becomes symbolic, so nothing folds after the first symbolic character
# (measured: '"' + 1 symbolic byte 115k steps / 60 s -> 10k steps / 2 s). Pure jump threading on the emitted C, validated by translation validation.
UNITS = {'P': dict(SSO, new_block=64, gen_defs=['VERIF_NEW_POOL=8'], ir2c_flags=OPT + ['--thread-br']), 'X': dict(wrap='wrap.cc', new_block=64, ir2c_flags=OPT),
         # XP: exact libstdc++ strings (heap storage allowed, blocks of 64 bytes) + deterministic pool allocator; NP: the same without inlining
         # (phosg::format_color_escape is variadic: cut, exact model in h_hexdump.c for the generated-C modes)
         'XP': dict(wrap='wrap.cc', new_block=64, ir2c_flags=OPT, gen_defs=['VERIF_NEW_POOL=16'], cuts=['^_ZN5phosg19format_color_escapeB5cxx11ENS_14TerminalFormatEz$']),
         'NP': dict(wrap='wrap.cc', new_block=64, ir2c_flags=OPT, gen_defs=['VERIF_NEW_POOL=16'], cxxflags=['-fno-inline'], extra_c=['alloc_noop.c'])}
BOUNDS = ('format_data_string: data 0..2 bytes with symbolic mask / has_mask / flag, 2..5 bytes with has_mask and flag case-split (quick 0..2); '
          'parse_data_string (text in an exact-size heap object: a read past the terminating NUL fails CBMC\'s pointer checks / ASan): arbitrary text of 0..1 bytes quick, 0..3 thorough (all 256 values, mask requested or not, flags 0), '
          'plus cells = one concrete construct opener of 1..5 characters (" \' "\\ \'\\ $\' ?" // /*a 4" #1 ##1 ###1 ####1 $##1 ?#1 %1 %%1 $%1 4b 4?b /*/4b <4b and texts ending in a backslash) followed by 0..1 symbolic bytes (0..2 thorough); '
          'in the numeric cells the conversion stub consumes a cell-fixed number of characters (0 or 1) and returns an arbitrary value; '
          'round trip format->parse through the real parser: data 0 bytes quick, 0..2 bytes thorough (symbolic has_mask / flags); '
          'format_data: concrete (size, start address, flags, iovec cuts) cells with symbolic data bytes: sizes 0..20 (quick 0..2), start addresses 0, unaligned, up to/across 2^32, 0x1234... (64-bit), and up to 2^64, '
          'flags PRINT_ASCII / none / SKIP_SEPARATOR / COLLAPSE_ZERO_LINES / OFFSET_16/64_BITS, all 10 cut pairs for size 3, selected pairs otherwise; '
          'diff / colour mode (USE_COLOR, previous buffer of symbolic bytes as two iovecs): sizes 1..3 quick (1..4 thorough), start addresses with low nibble 0 / 3 / 5 / 14 / 15 incl. 0xFFFFFFFF, with and without PRINT_ASCII / SKIP_SEPARATOR, '
          'colour without previous buffer, previous buffer without colour')
STUBS = ['vasprintf: engine/rt/stub_printf.h, EXACT for %02X, %0*lX and literals (hex digits nibble-wise)',
         'strtoull / strtod / strtof (h_dsparse.c): CONTRACT stubs - consume 0..strlen characters (cells with USED: exactly min(USED, strlen)), return an arbitrary value (0 when nothing consumed, floats non-NaN); the reference parser uses the same values',
         'phosg::format_color_escape (variadic; clang lowers va_arg to register-save-area arithmetic CBMC cannot interpret): cut in unit XP and replaced in the generated-C modes by an exact model in h_hexdump.c '
         '("\\033[" + decimal attributes 0..99 joined by ";" + "m", 1..4 attributes, anything else a reported BOUND failure); the native real build runs the real function and translation validation compares the texts',
         'w_parse_ds_inplace (wrap.cc): the parser is handed a std::string object whose representation {pointer, length, capacity} points at the harness\'s exact-size buffer (libstdc++ layout, no copy), so that the walk over c_str() is bounds-checked',
         'w_format_data_diff_ev (wrap.cc, EV cells): the sink passed to format_data records every write_data call that starts with ESC as an out-of-band event {text position, length, first 8 bytes} instead of appending it to the text; '
         'the harness decodes the event bytes; the inline_* cells (thorough) keep the sequences in the text and remove them in the harness',
         'P unit: std::string::_M_create cut to a reported bound failure (strings <= 15 bytes), pool allocator, std::allocator<char> no-ops, ir2c --thread-br (jump threading of the emitted C, see UNITS); XP unit: pool allocator only (heap strings up to 63 bytes)',
         'load_file (ALLOW_FILES) is never reached (flags == 0); Filesystem.cc is included only to link the native build']
OUTSIDE = ['data longer than the cells (statement: 0..600 bytes); round trip parse(format(d)) beyond 2 bytes (2 bytes: 713 s; 3 bytes with mask exceed the 15-byte string bound of the P encoding); longer data is covered '
           'compositionally: format output decoded by an independent decoder (h_dsformat.c) + parser == reference parser on arbitrary text (h_dsparse.c)',
           'parse_data_string on arbitrary text longer than 3 bytes; in the prefix cells a symbolic byte examined in the default state keeps every construct branch alive (60-250 s per such byte), so the quick cells place the symbolic byte inside a string / comment or fix the number of characters a numeric conversion consumes',
           'format_data with SYMBOLIC size / start address / iovec lengths: every loop bound derives from start + sum(iov_len), CBMC cannot fold it (no verdict in 300 s even for size 0); addresses and partitions are therefore cells, not quantified',
           'diff / colour mode beyond 4 bytes, together with COLLAPSE_ZERO_LINES (needs >= 33 bytes), with PRINT_FLOAT / PRINT_DOUBLE; the exact escape text is not prescribed (any SGR sequence built from 0 / 1 / 7 / 31 is accepted) and the attribute of the blank in front of a hex pair is not constrained',
           'PRINT_FLOAT / PRINT_DOUBLE columns (%g formatting), print_data (FILE*, isatty), ALLOW_FILES',
           'parse_data_string: the numeric value syntax itself (strtoull/strtod/strtof are contract stubs)',
           'undocumented parser quirks the reference follows (see NOTES.md): "/*/" is a complete comment; a pending high nibble survives other constructs; bytes >= 0x80 inside \'...\' strings are sign-extended to 16 bits']
ASSUMPTIONS = []


def Q(name, unit, harness, defs, unwind, desc='', bounds='', timeout=900, mem_gb=6, **kw):
    d = dict(name=name, unit=unit, harness=harness, defs=defs, unwind=unwind, timeout=timeout, mem_gb=mem_gb, desc=desc, bounds=bounds)
    d.update(kw)
    return d


PRINTF_LOOPS = ','.join('verif_fmt_core.%d:17' % i for i in range(14))  # stub_printf.h scans up to 16 hex digits


def hd_cap(size, st, fl, w):
    """text capacity of a hex dump cell = h_hexdump.c's CAP (lines * line width + room for escape sequences + 1)"""
    nl = ((st & 15) + size + 15) // 16
    sepw = 0 if fl & 0x40 else 2
    ascw = ((1 if fl & 0x40 else 3) + 16) if fl & 0x2 else 0
    return nl * (w + sepw + 48 + ascw + 1) + (size * 30 if fl & 1 else 0) + 1


def queries(tier):
    quick = tier == 'quick'
    qs = []
    for L in ([0, 1] if quick else [0, 1, 2]):
        qs.append(Q('dsformat_len%d' % L, 'P', 'h_dsformat.c', {'LEN': L}, 5 * L + 4, unwindset=PRINTF_LOOPS, mem_gb=4 if L <= 1 else 10,
                    desc='format_data_string of %d symbolic bytes + mask decodes back (independent decoder of the data-string syntax)' % L,
                    bounds='len(data) == %d, all byte values, all masks, with/without mask, both flag values' % L))
    # larger cells: has_mask / flags case-split; (L=3, mask, strings allowed) exceeds the 15-byte string bound of the P encoding (17 chars)
    for L, hm, fl in ([(2, 0, 0), (2, 0, 1), (2, 1, 1)] if quick else [(2, 1, 0), (3, 0, 0), (3, 0, 1), (3, 1, 1), (4, 0, 1), (5, 0, 1), (4, 0, 0)]):
        qs.append(Q('dsformat_len%d_m%d_f%d' % (L, hm, fl), 'P', 'h_dsformat.c', {'LEN': L, 'HM': hm, 'FL': fl}, 5 * L + 4, unwindset=PRINTF_LOOPS, mem_gb=6 if L <= 2 else 10,
                    desc='as dsformat, has_mask=%d flags=%d fixed' % (hm, fl), bounds='len(data) == %d, all byte values, all masks' % L))
    PLOOP = '_ZN5phosg17parse_data_stringERKNSt7__cxx1112basic_stringIcSt11char_traitsIcESaIcEEEPS5_m.0:%d'
    for L in ([0, 1] if quick else [0, 1, 2, 3]):
        qs.append(Q('dsparse_len%d' % L, 'P', 'h_dsparse.c', {'LEN': L}, 10 if L <= 2 else 14, unwindset=PLOOP % (L + 2), mem_gb=12, timeout=1800,
                    desc='parse_data_string on %d arbitrary symbolic bytes equals the reference data-string parser (data and mask), strtoull/strtod/strtof contract stubs' % L,
                    bounds='len(text) == %d, all byte values, mask requested or not, flags == 0' % L))
    # concrete construct openers followed by symbolic bytes: (name, concrete prefix, symbolic bytes, USED or None). The parser's branches on the
    # concrete prefix fold. A symbolic byte that is examined inside a string / comment costs seconds; one examined in the default state keeps every
    # construct branch alive (60-100 s, like dsparse_len1). After a # / % construct the cursor is concrete only when the conversion stub consumes a
    # cell-fixed number of characters (USED), the converted value stays symbolic.
    PFX = [('dq', '"', 1, None), ('sq', "'", 1, None), ('dq_bs', '"\\', 1, None), ('sq_bs', "'\\", 1, None), ('be_sq', "$'", 1, None), ('be_sq_bs', "$'\\", 1, None),
           ('sq_bs_end', "'\\", 0, None), ('sq_a_bs_end', "'a\\", 0, None), ('dq_bs_end', '"\\', 0, None), ('dq_a', '"a', 1, None), ('sq_a', "'a", 1, None), ('q_dq', '?"', 1, None), ('lc', '//', 1, None), ('bc_a', '/*a', 1, None), ('hex_dq', '4"', 1, None),
           ('hash', '#1', 0, 1), ('hash_u0', '#1', 0, 0), ('hash2', '##1', 0, 1), ('hash3', '###1', 0, 1), ('hash4', '####1', 0, 1), ('be_hash2', '$##1', 0, 1), ('q_hash', '?#1', 0, 1),
           ('pct', '%1', 0, 1), ('pct2', '%%1', 0, 1), ('be_pct', '$%1', 0, 1), ('hexpair', '4b', 0, None), ('hex_q_hex', '4?b', 0, None), ('bc_star', '/*/4b', 0, None), ('lt', '<4b', 0, None)]
    if not quick:
        # two symbolic bytes after the prefix (every construct branch alive for the second one: minutes); texts of length <= 3 are covered by dsparse_len3
        PFX += [('sq_bs', "'\\", 2, None), ('dq_bs', '"\\', 2, None), ('be_sq', "$'", 2, None), ('bc', '/*', 2, None)]
    for nm, pre, k, used in PFX:
        L = len(pre) + k
        d = {'LEN': L, 'NPRE': len(pre)}
        for j, ch in enumerate(pre):
            d['P%d' % j] = ord(ch)
        if used is not None:
            d['USED'] = used
        qs.append(Q('dsparse_pfx_%s_s%d%s' % (nm, k, '' if used is None else '_u%d' % used), 'P', 'h_dsparse.c', d, max(10 if L <= 2 else 14, min(4 * L, 16) + 2), unwindset=PLOOP % (L + 2), mem_gb=3 if k <= 1 else 10, timeout=900, tv_runs=60 if (k or used is not None) else 4,
                    desc='parse_data_string on the concrete prefix %r followed by %d arbitrary symbolic bytes equals the reference parser%s; the text is an exact-size heap object (no read past the NUL)' % (
                        pre, k, '' if used is None else ' (numeric conversion stub consumes exactly %d characters, arbitrary value)' % used),
                    bounds='text == %r + %d symbolic bytes (all values), mask requested or not, flags == 0' % (pre, k)))
    # round trip through the real parser
    for L in ([0] if quick else [0, 1, 2]):
        qs.append(Q('dsround_len%d' % L, 'P', 'h_dsround.c', {'LEN': L}, 5 * L + 8, unwindset=PRINTF_LOOPS + ',' + PLOOP % (5 * L + 4), mem_gb=6 if L == 0 else 24, timeout=900 if L == 0 else 1800, desc='parse_data_string(format_data_string(d, mask, flags)) == (d, mask classes) for %d symbolic bytes' % L,
                    bounds='len(data) == %d, all byte values, all masks, with/without mask, both flag values' % L))
    # hex dump cells: (name, SIZE, START, FLAGS, WIDTH, [(C1, C2) ...])
    ALLCUTS3 = [(a, b) for a in range(0, 4) for b in range(a, 4)]
    hd = [('s0', 0, 0x0, 0x2, 2, [(0, 0)]), ('s1_ascii', 1, 0x0, 0x2, 2, [(0, 0), (0, 1), (1, 1)]), ('s2_al15', 2, 0x1F, 0x0, 2, [(0, 2), (1, 1)])]
    if not quick:
        # cost is ~20 s per dumped byte (one string_printf per byte): cells above ~20 bytes exceed the thorough budget (measured: 12 bytes 1075 s, 17 bytes > 1800 s)
        hd += [('s3_al14_ascii', 3, 0x1E, 0x2, 2, ALLCUTS3),
               ('s5_al13_skipsep_o64', 5, 0x123456789ABCDEFD, 0x842, 16, [(0, 0), (2, 4)]),
               ('s16_al0_noascii', 16, 0x40, 0x0, 2, [(7, 9)]),
               ('s3_upto2e32', 3, 0xFFFFFFFD, 0x2, 8, [(1, 2)]), ('s4_across2e32', 4, 0xFFFFFFFE, 0x2, 16, [(1, 3)]),
               ('s4_al14_w4', 4, 0xFE, 0x2, 4, [(1, 3)]), ('s2_al15_w8', 2, 0xFFFF, 0x2, 8, [(1, 1)]), ('s2_w8_top32', 2, 0xFFFFFFF0, 0x2, 8, [(0, 2)]),
               ('s10_al10_o16_skipsep', 10, 0x10A, 0x240, 4, [(3, 7)]),
               ('s18_al15_collapse_noascii', 18, 0x2F, 0x20, 2, [(0, 18)]),
               ('s8_below_top', 8, 0xFFFFFFFFFFFFFFE4, 0x2, 16, [(3, 3)])]
    for nm, size, st, fl, w, cuts in hd:
        for c1, c2 in cuts:
            qs.append(Q('hexdump_%s_c%d_%d' % (nm, c1, c2), 'XP', 'h_hexdump.c', {'SIZE': size, 'START': '0x%xULL' % st, 'FLAGS': fl, 'WIDTH': w, 'C1': c1, 'C2': c2}, max(21 if (w == 16 and not fl & 0x40) else 19, size + 3), unwindset=PRINTF_LOOPS, mem_gb=5 if size <= 3 else 12, timeout=1800,
                        desc='format_data text of %d symbolic bytes at 0x%x, flags 0x%x, iovecs cut at %d/%d, decoded by an independent dump parser' % (size, st, fl, c1, c2),
                        bounds='size %d, start 0x%x, flags 0x%x, cuts (%d,%d), all byte values' % (size, st, fl, c1, c2)))
    # dumps whose last line ends at 2^64 (fixes/format_data-top-of-address-space.patch; VIOLATION on the unpatched tree)
    for nm, size, st, fl, cuts in (('top_s1_ends_at_2e64', 1, 0xFFFFFFFFFFFFFFFF, 0x0, (0, 1)), ('top_ends_at_2e64', 4, 0xFFFFFFFFFFFFFFFC, 0x2, (0, 4)), ('top_unaligned_to_2e64', 5, 0xFFFFFFFFFFFFFFFB, 0x2, (2, 2)), ('top_last_line', 3, 0xFFFFFFFFFFFFFFF4, 0x2, (1, 2))):
        if quick and nm != 'top_s1_ends_at_2e64':
            continue
        qs.append(Q('hexdump_' + nm, 'XP', 'h_hexdump.c', {'SIZE': size, 'START': '0x%xULL' % st, 'FLAGS': fl, 'WIDTH': 16, 'C1': cuts[0], 'C2': cuts[1]}, max(21, size + 3), unwindset=PRINTF_LOOPS, mem_gb=5 if size <= 3 else 12, timeout=1800,
                    desc='format_data text of %d symbolic bytes whose last line ends at 2^64' % size, bounds='size %d, start 0x%x, flags 0x%x, all byte values' % (size, st, fl)))
    # diff / colour mode: (name, SIZE, START, FLAGS, WIDTH, (C1, C2), PC or None = no previous buffer, EV); data and prev bytes symbolic.
    # EV = 1: escape sequences captured out of band by the wrapper's sink (text positions concrete: ~20-60 s per cell); EV = 0: sequences inline in
    # the text and removed by the harness (positions symbolic: 90-280 s for 1..3 bytes), thorough tier only.
    df = [('s1_al0', 1, 0x40, 0x3, 2, (0, 1), 0, 1), ('s1_al3', 1, 0x43, 0x3, 2, (1, 1), 1, 1), ('s1_al15', 1, 0x4F, 0x3, 2, (0, 0), 0, 1),
          ('s2_al15', 2, 0x1F, 0x1, 2, (1, 2), 2, 1), ('s3_al3', 3, 0x103, 0x1, 4, (1, 2), 2, 1),
          ('s1_color_noprev', 1, 0x5, 0x3, 2, (0, 1), None, 1), ('s1_prev_nocolor', 1, 0x5, 0x2, 2, (0, 1), 1, 0)]
    if not quick:
        df += [('s2_al0', 2, 0x0, 0x3, 2, (1, 1), 1, 1), ('s2_al3', 2, 0x3, 0x3, 2, (0, 2), 0, 1), ('s2_al15_ascii', 2, 0xFF, 0x3, 4, (0, 1), 1, 1),
               ('s3_al0', 3, 0x10, 0x3, 2, (0, 3), 1, 1), ('s3_al3_ascii', 3, 0x3, 0x3, 2, (1, 1), 3, 1), ('s3_al15', 3, 0xFFFFFFFF, 0x3, 16, (1, 2), 2, 1),
               ('s4_al14_skipsep', 4, 0x2E, 0x43, 2, (2, 3), 1, 1), ('s2_color_noprev', 2, 0xF, 0x3, 2, (1, 1), None, 1), ('s3_prev_nocolor', 3, 0xE, 0x2, 2, (1, 2), 2, 0),
               ('inline_s1_al0', 1, 0x40, 0x3, 2, (0, 1), 0, 0), ('inline_s1_al3', 1, 0x43, 0x3, 2, (1, 1), 1, 0), ('inline_s1_al15', 1, 0x4F, 0x3, 2, (0, 0), 0, 0),
               ('inline_s1_color_noprev', 1, 0x5, 0x3, 2, (0, 1), None, 0)]
    for nm, size, st, fl, w, (c1, c2), pc, ev in df:
        d = {'SIZE': size, 'START': '0x%xULL' % st, 'FLAGS': fl, 'WIDTH': w, 'C1': c1, 'C2': c2}
        if pc is not None:
            d.update(DIFF=1, PC=pc)
        if ev:
            d.update(EV=1)
        cap = hd_cap(size, st, fl if not ev else fl & ~1, w)
        us = PRINTF_LOOPS + (',strip_escapes.2:%d' % (cap + 1) if (fl & 1 and not ev) else '') + (',apply_events.1:%d' % (cap + 1) if ev else '')
        qs.append(Q('hexdiff_' + nm, 'XP', 'h_hexdump.c', d, max(21 if w == 16 else 19, size + 3, 6 * size + 2 if ev else 0), unwindset=us, mem_gb=6 if ev or not fl & 1 else 12, timeout=1800,
                    desc='format_data of %d symbolic bytes at 0x%x, flags 0x%x, %s: escape sequences (%s) decoded, highlighted fields == bytes differing from prev at the same offset, text without escapes == ordinary dump' % (
                        size, st, fl, 'previous buffer of symbolic bytes (iovecs cut at %d)' % pc if pc is not None else 'no previous buffer', 'captured out of band per write_data call' if ev else 'inline'),
                    bounds='size %d, start 0x%x, flags 0x%x, cuts (%d,%d)/%s, all data and prev byte values' % (size, st, fl, c1, c2, pc)))
    return qs
