ID = 'C09'
OPT = ['--ptrdiff', '--flat-unions']
# P: fast encoding (see props/C08/spec.py): -fno-inline + std::string::_M_create cut to a reported bound failure (all strings <= 15
# bytes) + deterministic pool allocator. X: exact encoding (CBMC malloc, inlined libstdc++), strings up to 63 bytes.
SSO = dict(wrap='wrap.cc', cxxflags=['-fno-inline'], cuts=['basic_stringIcSt11char_traitsIcESaIcEE9_M_createERmm$'], extra_c=['sso_bound.c'], ir2c_flags=OPT)
UNITS = {'P': dict(SSO, new_block=64, gen_defs=['VERIF_NEW_POOL=8']), 'X': dict(wrap='wrap.cc', new_block=64, ir2c_flags=OPT)}
BOUNDS = ''
STUBS = []
OUTSIDE = []
ASSUMPTIONS = []


def Q(name, unit, harness, defs, unwind, desc='', bounds='', timeout=900, mem_gb=6, **kw):
    d = dict(name=name, unit=unit, harness=harness, defs=defs, unwind=unwind, timeout=timeout, mem_gb=mem_gb, desc=desc, bounds=bounds)
    d.update(kw)
    return d


PRINTF_LOOPS = ','.join('X_vasprintf.%d:17' % i for i in range(12))  # stub_printf.h scans up to 16 hex digits


def queries(tier):
    quick = tier == 'quick'
    qs = []
    for L in ([0, 1] if quick else [0, 1, 2]):
        qs.append(Q('dsformat_len%d' % L, 'P', 'h_dsformat.c', {'LEN': L}, 5 * L + 4, unwindset=PRINTF_LOOPS, mem_gb=10,
                    desc='format_data_string of %d symbolic bytes + mask decodes back (independent decoder of the data-string syntax)' % L,
                    bounds='len(data) == %d, all byte values, all masks, with/without mask, both flag values' % L))
    # larger cells: has_mask / flags case-split; (L=3, mask, strings allowed) exceeds the 15-byte string bound of the P encoding (17 chars)
    for L, hm, fl in ([(2, 0, 0), (2, 0, 1), (2, 1, 1), (2, 1, 0)] if quick else [(3, 0, 0), (3, 0, 1), (3, 1, 1), (4, 0, 1), (5, 0, 1), (4, 0, 0)]):
        qs.append(Q('dsformat_len%d_m%d_f%d' % (L, hm, fl), 'P', 'h_dsformat.c', {'LEN': L, 'HM': hm, 'FL': fl}, 5 * L + 4, unwindset=PRINTF_LOOPS, mem_gb=10,
                    desc='as dsformat, has_mask=%d flags=%d fixed' % (hm, fl), bounds='len(data) == %d, all byte values, all masks' % L))
    PLOOP = '_ZN5phosg17parse_data_stringERKNSt7__cxx1112basic_stringIcSt11char_traitsIcESaIcEEEPS5_m.0:%d'
    for L in ([0, 1, 2] if quick else [0, 1, 2, 3]):
        qs.append(Q('dsparse_len%d' % L, 'P', 'h_dsparse.c', {'LEN': L}, 10, unwindset=PLOOP % (L + 2), mem_gb=10,
                    desc='parse_data_string on %d arbitrary symbolic bytes equals the reference data-string parser (data and mask), strtoull/strtod/strtof contract stubs' % L,
                    bounds='len(text) == %d, all byte values, mask requested or not, flags == 0' % L))
    for L in ([0] if quick else [0, 1]):
        qs.append(Q('dsround_len%d' % L, 'P', 'h_dsround.c', {'LEN': L}, 5 * L + 8, 'parse_data_string(format_data_string(d, mask, flags)) == (d, mask classes) for %d symbolic bytes' % L,
                    'len(data) == %d, all byte values, all masks, with/without mask, both flag values' % L))
    return qs
