ID = 'C09'
OPT = ['--ptrdiff', '--flat-unions']
# P: fast encoding (see props/C08/spec.py): -fno-inline + std::string::_M_create cut to a reported bound failure (all strings <= 15
# bytes) + deterministic pool allocator. X: exact encoding (CBMC malloc, inlined libstdc++), strings up to 63 bytes.
SSO = dict(wrap='wrap.cc', cxxflags=['-fno-inline'], cuts=['basic_stringIcSt11char_traitsIcESaIcEE9_M_createERmm$'], extra_c=['sso_bound.c'], ir2c_flags=OPT)
UNITS = {'P': dict(SSO, new_block=64, gen_defs=['VERIF_NEW_POOL=8']), 'X': dict(wrap='wrap.cc', new_block=64, ir2c_flags=OPT)}
BOUNDS = ''
STUBS = []
OUTSIDE = []
ASSUMPTIONS = []


def Q(name, unit, harness, defs, unwind, desc='', bounds='', timeout=900, mem_gb=6, **kw):
    d = dict(name=name, unit=unit, harness=harness, defs=defs, unwind=unwind, timeout=timeout, mem_gb=mem_gb, desc=desc, bounds=bounds)
    d.update(kw)
    return d


PRINTF_LOOPS = ','.join('X_vasprintf.%d:17' % i for i in range(12))  # stub_printf.h scans up to 16 hex digits


def queries(tier):
    quick = tier == 'quick'
    qs = []
    for L in ([0, 1] if quick else [0, 1, 2]):
        qs.append(Q('dsformat_len%d' % L, 'P', 'h_dsformat.c', {'LEN': L}, 5 * L + 4, unwindset=PRINTF_LOOPS, mem_gb=10,
                    desc='format_data_string of %d symbolic bytes + mask decodes back (independent decoder of the data-string syntax)' % L,
                    bounds='len(data) == %d, all byte values, all masks, with/without mask, both flag values' % L))
    # larger cells: has_mask / flags case-split; (L=3, mask, strings allowed) exceeds the 15-byte string bound of the P encoding (17 chars)
    for L, hm, fl in ([(2, 0, 0), (2, 0, 1), (2, 1, 1), (2, 1, 0)] if quick else [(3, 0, 0), (3, 0, 1), (3, 1, 1), (4, 0, 1), (5, 0, 1), (4, 0, 0)]):
        qs.append(Q('dsformat_len%d_m%d_f%d' % (L, hm, fl), 'P', 'h_dsformat.c', {'LEN': L, 'HM': hm, 'FL': fl}, 5 * L + 4, unwindset=PRINTF_LOOPS, mem_gb=10,
                    desc='as dsformat, has_mask=%d flags=%d fixed' % (hm, fl), bounds='len(data) == %d, all byte values, all masks' % L))
    PLOOP = '_ZN5phosg17parse_data_stringERKNSt7__cxx1112basic_stringIcSt11char_traitsIcESaIcEEEPS5_m.0:%d'
    for L in ([0, 1, 2] if quick else [0, 1, 2, 3]):
        qs.append(Q('dsparse_len%d' % L, 'P', 'h_dsparse.c', {'LEN': L}, 10, unwindset=PLOOP % (L + 2), mem_gb=10,
                    desc='parse_data_string on %d arbitrary symbolic bytes equals the reference data-string parser (data and mask), strtoull/strtod/strtof contract stubs' % L,
                    bounds='len(text) == %d, all byte values, mask requested or not, flags == 0' % L))
    for L in ([0] if quick else [0, 1]):
        qs.append(Q('dsround_len%d' % L, 'P', 'h_dsround.c', {'LEN': L}, 5 * L + 8, 'parse_data_string(format_data_string(d, mask, flags)) == (d, mask classes) for %d symbolic bytes' % L,
                    'len(data) == %d, all byte values, all masks, with/without mask, both flag values' % L))
    # hex dump: (name, SIZE, ALIGN, FLAGS, ADDR, START, WIDTH)
    hd = [('a64_s1_al0_ascii', 1, 0, 0x802, 0, 0, 16), ('a64_s3_al14_ascii', 3, 14, 0x802, 0, 0, 16), ('auto_s2_al0', 2, 0, 0x0, 1, 0, 2), ('auto_s0', 0, 0, 0x2, 1, 0, 2)]
    if not quick:
        hd += [('a64_s5_al13_skipsep', 5, 13, 0x842, 0, 0, 16), ('a64_s16_al0', 16, 0, 0x800, 0, 0, 16), ('a64_s17_al15_ascii', 17, 15, 0x802, 0, 0, 16),
               ('auto_s4_al14_w4', 4, 14, 0x2, 1, 0xF0, 4), ('auto_s2_al15_w8', 2, 15, 0x2, 1, 0xFFF0, 8), ('auto_s2_al15_w16', 2, 15, 0x2, 1, 0xFFFFFFF0, 16),
               ('auto_s48_al0_collapse', 48, 0, 0x22, 1, 0, 2), ('o16_s20_al7_skipsep', 20, 7, 0x240, 1, 0x100, 4)]
    for nm, size, al, fl, addr, st, w in hd:
        nl = (al + size + 15) // 16
        qs.append(Q('hexdump_' + nm, 'X', 'h_hexdump.c', {'SIZE': size, 'ALIGN': al, 'FLAGS': fl, 'ADDR': addr, 'START': st, 'WIDTH': w, 'KF_WRAP_EXCL': 1}, max(18, size + 3), unwindset=PRINTF_LOOPS,
                    mem_gb=12, per_harness_block=0,
                    desc='format_data text of %d symbolic bytes at %s, flags 0x%x, all 1-3-way iovec partitions, decoded by an independent dump parser' % (size, 'symbolic 64-bit address with low nibble %d' % al if addr == 0 else 'address 0x%x' % (st + al), fl),
                    bounds='size %d, start & 15 == %d, flags 0x%x, %s' % (size, al, fl, 'start address symbolic over all 64-bit values whose line-rounded range stays below 2^64' if addr == 0 else 'start address 0x%x' % (st + al))))
    qs.append(Q('hexdump_KF_top_of_address_space', 'X', 'h_hexdump.c', {'SIZE': 3, 'ALIGN': 14, 'FLAGS': 0x802, 'ADDR': 0, 'START': 0, 'WIDTH': 16, 'KF_WRAP_ONLY': 1}, 18, unwindset=PRINTF_LOOPS, mem_gb=12,
                desc='probe: dump whose last line ends at or wraps past 2^64', bounds='size 3, low nibble 14', expect_fail='format_data prints nothing or throws when the dumped range (rounded to lines) reaches 2^64'))
    return qs
