/* C09: format_data (hex dump) geometry and diff highlighting. The complete text handed to write_data is captured and decoded
 * here by an independent dump parser. Cells: SIZE (data length), ALIGN (start_address & 15), FLAGS (PrintDataFlags without
 * float columns), START (start address, any 64-bit value), C1 <= C2 (iovec cut points: the data is passed as the three iovecs
 * [0,C1) [C1,C2) [C2,SIZE), parts may be empty), WIDTH (digits of the address column expected for the cell: forced by an
 * OFFSET_*_BITS flag, otherwise 2/4/8/16 for last address < 0x100 / 0x10000 / 0x100000000 / above). Data bytes symbolic (all
 * 256 values). Sizes, addresses and cut points have to be concrete: the function derives every loop bound from
 * start_address + sum(iov_len), which CBMC cannot fold when any of them is symbolic (no verdict in 300 s even for size 0).
 * Checked for every line L of the ceil((ALIGN+SIZE)/16) lines: address column == (start & ~15) + 16 L in WIDTH upper-case
 * zero-padded hex digits; separator; column c shows " XX" with XX == data[(line address + c) - start] iff that address lies
 * in [start, start+SIZE), three blanks otherwise; ASCII column shows the byte itself when 0x20..0x7E, a blank otherwise.
 * With COLLAPSE_ZERO_LINES a line may be missing only if it is neither the first nor the last line and all its 16 bytes are
 * zero, and such lines must be missing. The text does not depend on (c1, c2) because the expected text does not.
 *
 * Diff / colour mode. DIFF defined: a previous buffer `prev` of SIZE symbolic bytes is passed as the two iovecs [0,PC) [PC,SIZE).
 * FLAGS & USE_COLOR (0x01): the text may contain terminal escape sequences. They are decoded here as ECMA-48 SGR sequences
 * `ESC [ n (; n)* m` with n in {0 = all attributes off, 1 = bold, 7 = inverse, 31 = red}; anything else is a failure. Every
 * remaining character carries the attribute state in force when it was printed. Then
 *   - the text WITHOUT the escape sequences is exactly the ordinary dump (all the checks above apply to it);
 *   - the two hex digits of the byte at offset i are highlighted (bold and red) iff DIFF and data[i] != prev[i]; likewise its
 *     character in the ASCII column; that character is inverse iff the byte is not printable (0x20..0x7E);
 *   - everything else (address column, separators, blanks of addresses outside the range, line terminator) carries no
 *     attribute at all; the blank that precedes the two hex digits of a byte is not constrained (a blank shows neither bold nor red).
 * Without USE_COLOR no escape character may appear (the ordinary checks fail on it), with or without prev.
 * Two ways of capturing the coloured output (cells): the default keeps the escape sequences inline in the captured text and removes
 * them here (every text position after the first conditional highlight is then symbolic: minutes per cell); EV defined: the
 * wrapper's sink records every write_data call that starts with ESC as an out-of-band event {text position, length, bytes} and
 * appends all other calls to the text, so the text positions are concrete; the event bytes are decoded here by the same SGR rules
 * and applied at their positions. An ESC anywhere else stays in the text and fails the dump parser. In both modes all attributes
 * must be off at the end of the text.
 * vasprintf = exact hex model stub_printf.h ("%0*lX", " %02X"). phosg::format_color_escape (variadic: clang lowers va_arg to
 * x86-64 register-save-area arithmetic that has no meaning for CBMC) is cut and replaced IN THE GENERATED-C MODES by the exact
 * model below; the native real build runs the real function and translation validation compares the texts. */
#include "harness.h"
#define VERIF_PRINTF_CAP 24
#include "stub_printf.h"
int64_t w_format_data(uint8_t* data, uint64_t n, uint64_t c1, uint64_t c2, uint64_t start_address, uint64_t flags, uint8_t* out, uint64_t cap);
int64_t w_format_data_diff(uint8_t* data, uint8_t* prev, uint64_t n, uint64_t c1, uint64_t c2, uint64_t pc, uint64_t start_address, uint64_t flags, uint8_t* out, uint64_t cap);

int64_t w_format_data_diff_ev(uint8_t* data, uint8_t* prev, uint32_t has_prev, uint64_t n, uint64_t c1, uint64_t c2, uint64_t pc, uint64_t start_address, uint64_t flags, uint8_t* out, uint64_t cap,
                              uint64_t* ev_pos, uint8_t* ev_len, uint8_t* ev_bytes, uint64_t ev_cap, uint64_t* ev_n);

#define F_COLOR 0x01
#define F_ASCII 0x02
#define F_COLLAPSE 0x20
#define F_SKIPSEP 0x40
#define COLOR ((FLAGS) & F_COLOR)
#define ALIGN ((START) & 15)
#define NL ((ALIGN + SIZE + 15) / 16)
#define SEPW ((FLAGS & F_SKIPSEP) ? 0 : 2)
#define ASCW ((FLAGS & F_ASCII) ? (((FLAGS & F_SKIPSEP) ? 1 : 3) + 16) : 0)
#define LW (WIDTH + SEPW + 48 + ASCW + 1)
/* colour: per byte at most ESC[1;31m + ESC[0m around the hex field and around the ASCII character, ESC[7m + ESC[0m inside */
#ifdef EV
#define ESCW 0
#else
#define ESCW (COLOR ? SIZE * (2 * 11 + 8) : 0)
#endif
#define CAP (NL * LW + ESCW + 1)
#define MAXEV (6 * SIZE) /* per byte: on/off around the hex field, on/off around the ASCII character, inverse on/off inside */
#define A_BOLD 1
#define A_RED 2
#define A_INV 4
#define A_HL (A_BOLD | A_RED)
#ifndef PC
#define PC 0
#endif
static uint8_t hexch(uint32_t v) { return (uint8_t)(v < 10 ? '0' + v : 'A' + (v - 10)); }

#ifndef VERIF_NATIVE_REAL
/* std::string phosg::format_color_escape(TerminalFormat color, ...): "\033[" + decimal attributes joined by ';' + "m", the
 * list ends at TerminalFormat::END (-1), the first attribute is always printed. ret = sret pointer to an uninitialised
 * libstdc++ std::string {char* data; size_t size; char buf[16]}. Attributes 0..99, at most 4 of them (15 characters). */
void X__ZN5phosg19format_color_escapeB5cxx11ENS_14TerminalFormatEz(uint8_t* ret, uint32_t color, ...) {
  va_list va;
  va_start(va, color);
  uint8_t* buf = ret + 16;
  uint32_t n = 0, bound_ok = 1, more = 1;
  buf[n++] = 0x1B;
  for (int k = 0; k < 4; k++) if (more) {
    if (color > 99u) bound_ok = 0;
    buf[n++] = (uint8_t)(k == 0 ? '[' : ';');
    uint32_t u = color, tens = 0;
    for (int j = 0; j < 9; j++) if (u >= 10u) { u -= 10u; tens++; }
    if (tens) buf[n++] = (uint8_t)('0' + tens);
    buf[n++] = (uint8_t)('0' + (u & 15u));
    color = va_arg(va, uint32_t);
    if (color == 0xFFFFFFFFu) more = 0;
  }
  if (more) bound_ok = 0;
  va_end(va);
#ifdef VERIF_CBMC
  __CPROVER_assert(bound_ok, "BOUND: format_color_escape model covers 1..4 attributes in 0..99");
#else
  if (!bound_ok) ASSERT(0, "BOUND: format_color_escape model covers 1..4 attributes in 0..99"); /* silent unless it fails: this model does not exist in the real build */
#endif
  ASSUME(bound_ok);
  buf[n++] = 'm';
  buf[n] = 0;
  *(uint8_t**)ret = buf;
  *(uint64_t*)(ret + 8) = n;
}
#endif

#if COLOR && !defined(EV)
/* remove the escape sequences from raw[0..r), remember the attribute state of every remaining character; 0 = malformed */
static int strip_escapes(const uint8_t* raw, uint64_t r, uint8_t* text, uint8_t* attr, uint64_t* pn_out, uint8_t* final_attr) {
  uint64_t pn = 0, ip = 0;
  uint8_t cur = 0;
  int esc_ok = 1;
  for (int k = 0; k < CAP; k++) if (esc_ok && ip < r) {
    uint8_t ch = raw[ip];
    if (ch != 0x1B) { text[pn] = ch; attr[pn] = cur; pn++; ip++; continue; }
    if (ip + 1 >= r || raw[ip + 1] != '[') { esc_ok = 0; continue; }
    ip += 2;
    int done = 0;
    for (int a = 0; a < 3; a++) if (!done) {
      uint32_t v = 0, nd = 0;
      for (int d = 0; d < 2; d++) if (ip < r && raw[ip] >= '0' && raw[ip] <= '9') { v = v * 10u + (uint32_t)(raw[ip] - '0'); nd++; ip++; }
      if (!nd) { esc_ok = 0; done = 1; }
      else if (v == 0) cur = 0;
      else if (v == 1) cur |= A_BOLD;
      else if (v == 31) cur |= A_RED;
      else if (v == 7) cur |= A_INV;
      else { esc_ok = 0; done = 1; }
      if (!done) {
        if (ip < r && raw[ip] == ';') ip++;
        else if (ip < r && raw[ip] == 'm') { ip++; done = 1; }
        else { esc_ok = 0; done = 1; }
      }
    }
    if (!done) esc_ok = 0;
  }
  *pn_out = pn;
  *final_attr = cur;
  return esc_ok && ip == r;
}
#endif
#if COLOR && defined(EV)
/* one captured escape sequence b[0..len) (len <= 8): ESC [ n (; n)* m; its effect on the attribute state is new = (old & *am) | *om */
static int decode_event(const uint8_t* b, uint32_t len, uint8_t* am, uint8_t* om) {
  uint8_t a_m = 0xFF, o_m = 0;
  *am = 0xFF; *om = 0;
  if (len < 4 || len > 8 || b[0] != 0x1B || b[1] != '[') return 0;
  uint32_t ip = 2;
  int done = 0, ok = 1;
  for (int a = 0; a < 3; a++) if (!done) {
    uint32_t v = 0, nd = 0;
    for (int d = 0; d < 2; d++) if (ip < len && b[ip] >= '0' && b[ip] <= '9') { v = v * 10u + (uint32_t)(b[ip] - '0'); nd++; ip++; }
    if (!nd) { ok = 0; done = 1; }
    else if (v == 0) { a_m = 0; o_m = 0; }
    else if (v == 1) o_m |= A_BOLD;
    else if (v == 31) o_m |= A_RED;
    else if (v == 7) o_m |= A_INV;
    else { ok = 0; done = 1; }
    if (!done) {
      if (ip < len && b[ip] == ';') ip++;
      else if (ip < len && b[ip] == 'm') { ip++; done = 1; }
      else { ok = 0; done = 1; }
    }
  }
  *am = a_m; *om = o_m;
  return ok && done && ip == len;
}
/* attr[p] = attribute state of the character at text position p = all events at positions <= p applied in order (own function: its
 * loop over the CAP text positions gets its own unwinding bound) */
static void apply_events(uint8_t* attr, const uint64_t* ev_pos, const uint8_t* ev_am, const uint8_t* ev_om, uint64_t ev_n) {
  uint8_t cur = 0;
  for (int p = 0; p < CAP; p++) {
    for (int k = 0; k < MAXEV; k++) if ((uint64_t)k < ev_n && ev_pos[k] == (uint64_t)p) cur = (uint8_t)((cur & ev_am[k]) | ev_om[k]);
    attr[p] = cur; /* p == r: the state after the last character */
  }
}
#endif

void harness(void) {
  uint8_t data[SIZE + 1], prev[SIZE + 1], raw[CAP + 1];
  in_bytes(data, SIZE);
  uint64_t c1 = C1, c2 = C2;
  uint64_t start = (uint64_t)START;
  uint64_t first_line = start & ~(uint64_t)15;
  /* does the dumped range, rounded out to whole lines, reach the end of the 64-bit address space? */
  int reaches_top = NL > 0 && first_line >= (uint64_t)0 - (uint64_t)16 * NL;
  (void)reaches_top; /* cells with reaches_top are the known-finding probes */
#ifdef DIFF
  in_bytes(prev, SIZE);
#else
  for (int i = 0; i < SIZE; i++) prev[i] = data[i];
#endif
#ifdef EV
  uint64_t ev_pos[MAXEV + 1], ev_n = 0;
  uint8_t ev_len[MAXEV + 1], ev_bytes[8 * MAXEV + 8];
#ifdef DIFF
  int64_t r = w_format_data_diff_ev(data, prev, 1, SIZE, c1, c2, PC, start, FLAGS, raw, CAP, ev_pos, ev_len, ev_bytes, MAXEV, &ev_n);
#else
  int64_t r = w_format_data_diff_ev(data, prev, 0, SIZE, c1, c2, PC, start, FLAGS, raw, CAP, ev_pos, ev_len, ev_bytes, MAXEV, &ev_n);
#endif
  OBS(ev_n);
#elif defined(DIFF)
  int64_t r = w_format_data_diff(data, prev, SIZE, c1, c2, PC, start, FLAGS, raw, CAP);
#else
  int64_t r = w_format_data(data, SIZE, c1, c2, start, FLAGS, raw, CAP);
#endif
  OBS(r);
  ASSERT(r >= 0, "format_data does not throw and the text fits the expected size");
  if (r < 0) return;
#if SIZE == 0
  ASSERT(r == 0, "nothing is printed for empty data");
#else
#if COLOR && defined(EV)
  /* apply the captured escape sequences at their text positions */
  uint8_t* text = raw;
  uint8_t attr[CAP + 1], ev_am[MAXEV + 1], ev_om[MAXEV + 1];
  int esc_ok = ev_n <= MAXEV;
  for (int k = 0; k < MAXEV; k++) if ((uint64_t)k < ev_n) {
    uint8_t eb[8];
    for (int j = 0; j < 8; j++) eb[j] = ev_bytes[8 * k + j];
    if (!decode_event(eb, ev_len[k], &ev_am[k], &ev_om[k])) esc_ok = 0;
    if (ev_pos[k] > (uint64_t)r || (k > 0 && ev_pos[k] < ev_pos[k - 1])) esc_ok = 0;
  }
  ASSERT(esc_ok, "escape sequences are well-formed SGR sequences (ESC [ n ; ... m) with attributes 0, 1, 7, 31 only");
  if (!esc_ok) return;
  apply_events(attr, ev_pos, ev_am, ev_om, ev_n);
  ASSERT(r < CAP && attr[r < CAP ? r : 0] == 0, "all attributes are off at the end of the text");
#elif COLOR
  uint8_t text[CAP + 1], attr[CAP + 1], final_attr = 0;
  uint64_t pn = 0;
  int esc_ok = strip_escapes(raw, (uint64_t)r, text, attr, &pn, &final_attr);
  ASSERT(esc_ok, "escape sequences are well-formed SGR sequences (ESC [ n ; ... m) with attributes 0, 1, 7, 31 only");
  if (!esc_ok) return;
  ASSERT(final_attr == 0, "all attributes are off at the end of the text");
  r = (int64_t)pn;
  OBS(r);
#else
  uint8_t* text = raw;
#endif
  uint64_t pos = 0;
  for (int L = 0; L < NL; L++) {
    uint64_t la = first_line + (uint64_t)16 * L;
    /* expected content of the line */
    int allzero = 1;
    for (int c = 0; c < 16; c++) {
      uint64_t off = la + c - start;
      if (off < SIZE && data[off] != 0) allzero = 0;
#ifdef DIFF
      if (off < SIZE && prev[off] != 0) allzero = 0; /* a line that is zero now but was not before is a change and stays */
#endif
    }
    int collapsible = (FLAGS & F_COLLAPSE) && L > 0 && L < NL - 1 && allzero;
    if (collapsible) continue; /* must be absent: the next present line is compared at this position */
    ASSERT(pos + LW <= (uint64_t)r, "a line that may not be collapsed is present");
    if (pos + LW > (uint64_t)r) return;
    int ok_addr = 1, ok_hex = 1, ok_asc = 1, ok_sep = 1, ok_hl = 1, ok_plain = 1, ok_inv = 1;
#if COLOR
#define PLAIN(i) do { if (attr[i] != 0) ok_plain = 0; } while (0)
#else
#define PLAIN(i) do { } while (0)
#endif
    for (int k = 0; k < WIDTH; k++) { uint32_t nib = (uint32_t)(la >> (4 * (WIDTH - 1 - k))) & 15; if (text[pos + k] != hexch(nib)) ok_addr = 0; PLAIN(pos + k); }
    if (WIDTH < 16 && (la >> (4 * WIDTH)) != 0) ok_addr = 0; /* cell parameters must make the address fit */
    uint64_t p = pos + WIDTH;
    if (SEPW) { if (text[p] != ' ' || text[p + 1] != '|') ok_sep = 0; PLAIN(p); PLAIN(p + 1); p += 2; }
    for (int c = 0; c < 16; c++) {
      uint64_t off = la + c - start;
      if (off < SIZE) {
        if (text[p] != ' ' || text[p + 1] != hexch(data[off] >> 4) || text[p + 2] != hexch(data[off] & 15)) ok_hex = 0;
#if COLOR
        int differs = data[off] != prev[off];
        if (((attr[p + 1] & A_HL) == A_HL) != differs || ((attr[p + 2] & A_HL) == A_HL) != differs) ok_hl = 0;
        if (!differs && (attr[p + 1] != 0 || attr[p + 2] != 0)) ok_hl = 0;
        if ((attr[p + 1] | attr[p + 2]) & A_INV) ok_inv = 0;
#endif
      } else {
        if (text[p] != ' ' || text[p + 1] != ' ' || text[p + 2] != ' ') ok_hex = 0;
        PLAIN(p); PLAIN(p + 1); PLAIN(p + 2);
      }
      p += 3;
    }
    if (FLAGS & F_ASCII) {
      if (FLAGS & F_SKIPSEP) { if (text[p] != ' ') ok_sep = 0; PLAIN(p); p += 1; }
      else { if (text[p] != ' ' || text[p + 1] != '|' || text[p + 2] != ' ') ok_sep = 0; PLAIN(p); PLAIN(p + 1); PLAIN(p + 2); p += 3; }
      for (int c = 0; c < 16; c++) {
        uint64_t off = la + c - start;
        uint8_t want = ' ';
        if (off < SIZE && data[off] >= 0x20 && data[off] <= 0x7E) want = data[off];
        if (text[p] != want) ok_asc = 0;
#if COLOR
        if (off < SIZE) {
          int differs = data[off] != prev[off];
          int printable = data[off] >= 0x20 && data[off] <= 0x7E;
          if (((attr[p] & A_HL) == A_HL) != differs) ok_hl = 0;
          if (!differs && (attr[p] & A_HL) != 0) ok_hl = 0;
          if (((attr[p] & A_INV) != 0) != !printable) ok_inv = 0;
        } else PLAIN(p);
#endif
        p++;
      }
    }
    if (text[p] != '\n') ok_sep = 0;
    PLAIN(p);
    ASSERT(ok_addr, "address column == (start & ~15) + 16*line in the expected number of upper-case hex digits");
    ASSERT(ok_sep, "separators and the line terminator are in place");
    ASSERT(ok_hex, "hex columns decode to the data bytes at the right addresses, blanks exactly outside [start, start+size)");
    ASSERT(ok_asc, "ASCII column shows printable bytes, blanks otherwise and outside the range");
    ASSERT(ok_hl, "a byte's hex digits and ASCII character are highlighted (bold red) iff the byte differs from the previous buffer at the same offset");
    ASSERT(ok_inv, "inverse video marks exactly the non-printable bytes of the ASCII column");
    ASSERT(ok_plain, "address column, separators, out-of-range blanks and the line terminator carry no colour attribute");
    pos += LW;
  }
  ASSERT((uint64_t)r == pos, "no further text: only all-zero interior lines are collapsed, every other line is printed exactly once");
#endif
}
