/* C09: format_data (hex dump) geometry. The complete text handed to write_data is captured and decoded here by an
 * independent dump parser. Cells: SIZE (data length), ALIGN (start_address & 15), FLAGS (PrintDataFlags without colour and
 * float columns), START (start address, any 64-bit value), C1 <= C2 (iovec cut points: the data is passed as the three iovecs
 * [0,C1) [C1,C2) [C2,SIZE), parts may be empty), WIDTH (digits of the address column expected for the cell: forced by an
 * OFFSET_*_BITS flag, otherwise 2/4/8/16 for end address <= 0x100 / 0x10000 / 0x100000000 / above). Data bytes symbolic (all
 * 256 values). Sizes, addresses and cut points have to be concrete: the function derives every loop bound from
 * start_address + sum(iov_len), which CBMC cannot fold when any of them is symbolic (no verdict in 300 s even for size 0).
 * Checked for every line L of the ceil((ALIGN+SIZE)/16) lines: address column == (start & ~15) + 16 L in WIDTH upper-case
 * zero-padded hex digits; separator; column c shows " XX" with XX == data[(line address + c) - start] iff that address lies
 * in [start, start+SIZE), three blanks otherwise; ASCII column shows the byte itself when 0x20..0x7E, a blank otherwise.
 * With COLLAPSE_ZERO_LINES a line may be missing only if it is neither the first nor the last line and all its 16 bytes are
 * zero, and such lines must be missing. The text does not depend on (c1, c2) because the expected text does not.
 * vasprintf = exact hex model stub_printf.h ("%0*lX", " %02X"). */
#include "harness.h"
#define VERIF_PRINTF_CAP 24
#include "stub_printf.h"
int64_t w_format_data(uint8_t* data, uint64_t n, uint64_t c1, uint64_t c2, uint64_t start_address, uint64_t flags, uint8_t* out, uint64_t cap);

#define F_ASCII 0x02
#define F_COLLAPSE 0x20
#define F_SKIPSEP 0x40
#define ALIGN ((START) & 15)
#define NL ((ALIGN + SIZE + 15) / 16)
#define SEPW ((FLAGS & F_SKIPSEP) ? 0 : 2)
#define ASCW ((FLAGS & F_ASCII) ? (((FLAGS & F_SKIPSEP) ? 1 : 3) + 16) : 0)
#define LW (WIDTH + SEPW + 48 + ASCW + 1)
#define CAP (NL * LW + 1)
static uint8_t hexch(uint32_t v) { return (uint8_t)(v < 10 ? '0' + v : 'A' + (v - 10)); }

void harness(void) {
  uint8_t data[SIZE + 1], text[CAP + 1];
  in_bytes(data, SIZE);
  uint64_t c1 = C1, c2 = C2;
  uint64_t start = (uint64_t)START;
  uint64_t first_line = start & ~(uint64_t)15;
  /* does the dumped range, rounded out to whole lines, reach the end of the 64-bit address space? */
  int reaches_top = NL > 0 && first_line >= (uint64_t)0 - (uint64_t)16 * NL;
  (void)reaches_top; /* cells with reaches_top are the known-finding probes */
  int64_t r = w_format_data(data, SIZE, c1, c2, start, FLAGS, text, CAP);
  OBS(r);
  ASSERT(r >= 0, "format_data does not throw and the text fits the expected size");
  if (r < 0) return;
#if SIZE == 0
  ASSERT(r == 0, "nothing is printed for empty data");
#else
  uint64_t pos = 0;
  for (int L = 0; L < NL; L++) {
    uint64_t la = first_line + (uint64_t)16 * L;
    /* expected content of the line */
    int allzero = 1;
    for (int c = 0; c < 16; c++) { uint64_t off = la + c - start; if (off < SIZE && data[off] != 0) allzero = 0; }
    int collapsible = (FLAGS & F_COLLAPSE) && L > 0 && L < NL - 1 && allzero;
    if (collapsible) continue; /* must be absent: the next present line is compared at this position */
    ASSERT(pos + LW <= (uint64_t)r, "a line that may not be collapsed is present");
    if (pos + LW > (uint64_t)r) return;
    int ok_addr = 1, ok_hex = 1, ok_asc = 1, ok_sep = 1;
    for (int k = 0; k < WIDTH; k++) { uint32_t nib = (uint32_t)(la >> (4 * (WIDTH - 1 - k))) & 15; if (text[pos + k] != hexch(nib)) ok_addr = 0; }
    if (WIDTH < 16 && (la >> (4 * WIDTH)) != 0) ok_addr = 0; /* cell parameters must make the address fit */
    uint64_t p = pos + WIDTH;
    if (SEPW) { if (text[p] != ' ' || text[p + 1] != '|') ok_sep = 0; p += 2; }
    for (int c = 0; c < 16; c++) {
      uint64_t off = la + c - start;
      if (off < SIZE) { if (text[p] != ' ' || text[p + 1] != hexch(data[off] >> 4) || text[p + 2] != hexch(data[off] & 15)) ok_hex = 0; }
      else if (text[p] != ' ' || text[p + 1] != ' ' || text[p + 2] != ' ') ok_hex = 0;
      p += 3;
    }
    if (FLAGS & F_ASCII) {
      if (FLAGS & F_SKIPSEP) { if (text[p] != ' ') ok_sep = 0; p += 1; }
      else { if (text[p] != ' ' || text[p + 1] != '|' || text[p + 2] != ' ') ok_sep = 0; p += 3; }
      for (int c = 0; c < 16; c++) {
        uint64_t off = la + c - start;
        uint8_t want = ' ';
        if (off < SIZE && data[off] >= 0x20 && data[off] <= 0x7E) want = data[off];
        if (text[p] != want) ok_asc = 0;
        p++;
      }
    }
    if (text[p] != '\n') ok_sep = 0;
    ASSERT(ok_addr, "address column == (start & ~15) + 16*line in the expected number of upper-case hex digits");
    ASSERT(ok_sep, "separators and the line terminator are in place");
    ASSERT(ok_hex, "hex columns decode to the data bytes at the right addresses, blanks exactly outside [start, start+size)");
    ASSERT(ok_asc, "ASCII column shows printable bytes, blanks otherwise and outside the range");
    pos += LW;
  }
  ASSERT((uint64_t)r == pos, "no further text: only all-zero interior lines are collapsed, every other line is printed exactly once");
#endif
}
