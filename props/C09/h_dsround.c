/* C09: data-string round trip. LEN = concrete data length (cell); data bytes (all 256 values), per-byte mask (any byte
 * value; only zero / non-zero matters), has_mask and the SKIP_STRINGS/HEX_ONLY flag symbolic.
 * parse_data_string(format_data_string(d, m, f), &m2) == d and (m2[i] != 0) == (m[i] != 0) (m2 all-enabled without mask).
 * vasprintf is the exact hex model stub_printf.h ("%02X"). */
#include "harness.h"
#include "stub_printf.h"
int64_t w_ds_roundtrip(uint8_t* data, uint64_t n, uint8_t* mask, uint32_t has_mask, uint64_t flags, uint8_t* out, uint64_t cap, uint8_t* mask_out, int64_t* mask_len);
#define CAP (LEN + 2)
void harness(void) {
  uint8_t d[LEN + 1], m[LEN + 1], out[CAP], m2[CAP];
  in_bytes(d, LEN);
  in_bytes(m, LEN);
#ifdef HM /* optional case split: HM = has_mask, FL = flags as cells */
  uint32_t has_mask = HM;
  uint64_t flags = FL;
#else
  uint32_t has_mask = in_bool();
  uint64_t flags = in_bool();
#endif
  int64_t ml = -1000;
  int64_t r = w_ds_roundtrip(d, LEN, m, has_mask, flags, out, CAP, m2, &ml);
  OBS(r); OBS(ml);
  ASSERT(r == LEN, "parse(format(data)) has the length of data");
  ASSERT(ml == LEN, "parsed mask has the length of data");
  if (r == LEN) for (int i = 0; i < LEN; i++) ASSERT(out[i] == d[i], "parse(format(data)) == data");
  if (ml == LEN) for (int i = 0; i < LEN; i++) ASSERT((m2[i] != 0) == (has_mask ? (m[i] != 0) : 1), "masked/unmasked classification of every byte survives the round trip");
}
