/* C09: format_data_string is lossless w.r.t. the data-string syntax: an independent decoder (written here from the
 * documented syntax: hex digit pairs, "..." strings with backslash escapes, ? toggling the mask) turns the produced text
 * back into exactly the data bytes and the masked/unmasked class of every byte.
 * LEN = concrete data length (cell); data (all 256 values), mask bytes (any value; zero / non-zero matters), has_mask and
 * the SKIP_STRINGS/HEX_ONLY flag symbolic. vasprintf = exact hex model stub_printf.h ("%02X"). */
#include "harness.h"
#include "stub_printf.h"
int64_t w_format_ds(uint8_t* data, uint64_t n, uint8_t* mask, uint32_t has_mask, uint64_t flags, uint8_t* out, uint64_t cap);
#define CAP (5 * LEN + 3)
static int hexval(uint8_t c) {
  if (c >= '0' && c <= '9') return c - '0';
  if (c >= 'A' && c <= 'F') return c - 'A' + 10;
  if (c >= 'a' && c <= 'f') return c - 'a' + 10;
  return -1;
}
void harness(void) {
  uint8_t d[LEN + 1], m[LEN + 1], text[CAP], dec[CAP], decm[CAP];
  in_bytes(d, LEN);
  in_bytes(m, LEN);
#ifdef HM /* optional case split: HM = has_mask, FL = flags as cells */
  uint32_t has_mask = HM;
  uint64_t flags = FL;
#else
  uint32_t has_mask = in_bool();
  uint64_t flags = in_bool();
#endif
  int64_t r = w_format_ds(d, LEN, m, has_mask, flags, text, CAP);
  OBS(r);
  ASSERT(r >= 0, "format_data_string does not throw and needs at most 5 characters per byte + 2");
  if (r < 0) return;
  /* independent decoder */
  uint64_t dn = 0; int ok = 1, in_str = 0, enabled = 1, hi = -1;
  for (int64_t i = 0; i < r && ok;) {
    uint8_t c = text[i];
    OBS(c);
    if (in_str) {
      if (c == '"') { in_str = 0; i++; }
      else if (c == '\\') {
        if (i + 1 >= r) { ok = 0; break; }
        uint8_t e = text[i + 1], v = e;
        if (e == 'n') v = '\n'; else if (e == 'r') v = '\r'; else if (e == 't') v = '\t';
        dec[dn] = v; decm[dn] = (uint8_t)enabled; dn++; i += 2;
      } else { dec[dn] = c; decm[dn] = (uint8_t)enabled; dn++; i++; }
    } else if (c == '"') { if (hi >= 0) ok = 0; in_str = 1; i++; }
    else if (c == '?') { if (hi >= 0) ok = 0; enabled = !enabled; i++; }
    else if (hexval(c) >= 0) {
      if (hi < 0) hi = hexval(c); else { dec[dn] = (uint8_t)(hi * 16 + hexval(c)); decm[dn] = (uint8_t)enabled; dn++; hi = -1; }
      i++;
    } else ok = 0;
  }
  ASSERT(ok && !in_str && hi < 0, "output is well-formed data-string syntax (closed strings, complete hex pairs, only hex digits, quotes and ? outside strings)");
  ASSERT(dn == LEN, "decoded length equals the data length");
  if (ok && dn == LEN) for (int i = 0; i < LEN; i++) {
    ASSERT(dec[i] == d[i], "independent decoder returns the data bytes");
    ASSERT((decm[i] != 0) == (has_mask ? (m[i] != 0) : 1), "independent decoder returns the masked/unmasked class of every byte");
  }
}
