/* C09: parse_data_string on ARBITRARY text (LEN symbolic bytes, all 256 values; the text ends at its first NUL like the
 * c_str() the parser walks) equals a reference parser for the data-string syntax written here, byte for byte, together
 * with the mask; it never throws, never reads outside the text (CBMC bounds/pointer checks, ASan natively) and terminates
 * within LEN+1 iterations of its main loop (unwinding assertion).
 * Syntax (Strings.cc comments + StringsTest.cc): hex digit pairs (other characters ignored; the pending high nibble survives
 * anything in between), "..." byte strings and '...' 16-bit strings with backslash escapes (n r t, otherwise the character
 * itself; a backslash as the very last character ends parsing), // line and slash-star block comments, ? toggles the mask
 * (initially enabled = 0xFF), $ toggles big-endian, # ## ### #### = 8/16/32/64-bit integer via strtoull(base 0), % float,
 * %% double; ALLOW_FILES off: '<' is ignored.
 * strtoull/strtod/strtof are CONTRACT stubs: they consume an arbitrary number of characters in [0, strlen] and return an
 * arbitrary value (0 when nothing is consumed); the reference uses the same returned values, so what is decided is where
 * the parser calls them, how far it advances and how it lays the value out (width, endianness, mask).
 * The text lives in an EXACT-SIZE heap object (malloc(LEN + 1): the text bytes and the terminating NUL, nothing after it) and
 * the parser is handed a std::string that refers to it in place (w_parse_ds_inplace, see wrap.cc), so a read one byte past
 * the terminator is outside every object: CBMC's pointer checks fail on it, ASan reports heap-buffer-overflow on replay.
 * Optional concrete prefix (cells): NPRE in 0..6 and P0..P5 = the first NPRE text bytes; the remaining LEN - NPRE bytes are
 * symbolic. The branches of the parser on the concrete bytes fold, so one query per construct opener costs seconds. */
#include "harness.h"
#include <stdlib.h>
int64_t w_parse_ds_inplace(uint8_t* text, uint64_t n, uint32_t want_mask, uint64_t flags, uint8_t* out, uint64_t cap, uint8_t* mask_out, int64_t* mask_len);
#ifndef NPRE
#define NPRE 0
#endif

#define MAXCALLS (LEN + 1)
static uint32_t armed, ncalls;
static uint64_t c_left[MAXCALLS], c_used[MAXCALLS], c_val[MAXCALLS];
static uint32_t c_kind[MAXCALLS]; /* 0 strtoull 1 strtof 2 strtod */
static uint64_t text_len;

/* all loops of the reference side have constant bounds (a loop whose exit depends on symbolic data is otherwise unrolled to --unwind) */
static uint64_t my_strlen(const uint8_t* s) { uint64_t n = 0; for (int k = 0; k < LEN; k++) if (s[n]) n++; return n; } /* s lies inside the text: at most LEN characters before the NUL */
static uint64_t contract(const uint8_t* s, uint8_t** endp, uint32_t kind) {
  uint64_t left = my_strlen(s);
  uint64_t used = in_range(0, LEN);
  ASSUME(used <= left);
  if (left == 0) used = 0; /* same value; concrete for symbolic execution when the conversion starts at the terminator */
#ifdef USED /* optional cell: the conversion consumes exactly min(USED, left) characters (keeps the cursor concrete) */
  ASSUME(used == (left < USED ? left : USED));
  used = left < USED ? left : USED;
#endif
  uint64_t v = in_u64();
  if (kind == 1) v &= 0xFFFFFFFFull;
  /* keep floating values non-NaN: a NaN payload need not survive being passed around as a float/double */
  if (kind == 1) ASSUME((v & 0x7F800000u) != 0x7F800000u);
  if (kind == 2) ASSUME((v & 0x7FF0000000000000ull) != 0x7FF0000000000000ull);
  if (used == 0) v = 0;
  ASSERT(ncalls < MAXCALLS, "at most one numeric conversion per input character");
  if (ncalls < MAXCALLS) { c_left[ncalls] = left; c_used[ncalls] = used; c_val[ncalls] = v; c_kind[ncalls] = kind; }
  ncalls++;
  if (endp) *endp = (uint8_t*)s + used;
  return v;
}
#ifdef VERIF_NATIVE_REAL
/* the native driver itself uses strtoull: forward to libc unless the harness armed the stub */
#define _GNU_SOURCE
#include <dlfcn.h>
void* dlsym(void*, const char*);
unsigned long long strtoull(const char* s, char** e, int base) {
  if (!armed) { unsigned long long (*f)(const char*, char**, int) = (unsigned long long (*)(const char*, char**, int))dlsym((void*)-1l, "strtoull"); return f(s, e, base); }
  ASSERT(base == 0, "strtoull is called with base 0");
  return contract((const uint8_t*)s, (uint8_t**)e, 0);
}
double strtod(const char* s, char** e) {
  if (!armed) { double (*f)(const char*, char**) = (double (*)(const char*, char**))dlsym((void*)-1l, "strtod"); return f(s, e); }
  uint64_t v = contract((const uint8_t*)s, (uint8_t**)e, 2); double d; memcpy(&d, &v, 8); return d;
}
float strtof(const char* s, char** e) {
  if (!armed) { float (*f)(const char*, char**) = (float (*)(const char*, char**))dlsym((void*)-1l, "strtof"); return f(s, e); }
  uint32_t v = (uint32_t)contract((const uint8_t*)s, (uint8_t**)e, 1); float d; memcpy(&d, &v, 4); return d;
}
#else
uint64_t X_strtoull(uint8_t* s, uint8_t* e, uint32_t base) { ASSERT(base == 0, "strtoull is called with base 0"); return contract(s, (uint8_t**)e, 0); }
double X_strtod(uint8_t* s, uint8_t* e) { uint64_t v = contract(s, (uint8_t**)e, 2); double d; memcpy(&d, &v, 8); return d; }
float X_strtof(uint8_t* s, uint8_t* e) { uint32_t v = (uint32_t)contract(s, (uint8_t**)e, 1); float d; memcpy(&d, &v, 4); return d; }
#endif

#define CAP 16
static uint8_t ref[8 * LEN + 8], refm[8 * LEN + 8];
static uint64_t rn;
static void emit(uint64_t v, int width, int big, int enabled) {
  for (int k = 0; k < 8; k++) if (k < width) {
    int sh = big ? 8 * (width - 1 - k) : 8 * k;
    ref[rn] = (uint8_t)(v >> sh); refm[rn] = enabled ? 0xFF : 0x00; rn++;
  }
}
static int hexval(uint8_t c) {
  if (c >= '0' && c <= '9') return c - '0';
  if (c >= 'A' && c <= 'F') return c - 'A' + 10;
  if (c >= 'a' && c <= 'f') return c - 'a' + 10;
  return -1;
}
void harness(void) {
  uint8_t t[LEN + 1], out[CAP], mout[CAP];
#if NPRE >= 1
  t[0] = P0;
#endif
#if NPRE >= 2
  t[1] = P1;
#endif
#if NPRE >= 3
  t[2] = P2;
#endif
#if NPRE >= 4
  t[3] = P3;
#endif
#if NPRE >= 5
  t[4] = P4;
#endif
#if NPRE >= 6
  t[5] = P5;
#endif
  in_bytes(t + NPRE, LEN - NPRE);
  t[LEN] = 0;
  uint32_t want_mask = in_bool();
  int64_t ml = -1000;
  uint8_t* tx = (uint8_t*)malloc(LEN + 1); /* exact-size object: text + NUL */
#ifdef VERIF_CBMC
  __CPROVER_assume(tx != 0);
#endif
  for (int i = 0; i <= LEN; i++) tx[i] = t[i];
  armed = 1;
  int64_t r = w_parse_ds_inplace(tx, LEN, want_mask, 0, out, CAP, mout, &ml);
  armed = 0;
  free(tx);
  OBS(r); OBS(ml);
  /* reference parser, consuming the logged conversions in order */
  uint64_t n = my_strlen(t), pos = 0, call = 0;
  int str = 0, ustr = 0, lc = 0, bc = 0, high = 1, big = 0, en = 1, stop = 0, calls_ok = 1;
  uint8_t acc = 0;
  for (int it = 0; it < LEN; it++) if (pos < n && !stop) { /* every iteration consumes at least one character */
    uint8_t c = t[pos], c1 = t[pos + 1]; /* t[n] == 0 */
    if (lc) { if (c == '\n') lc = 0; pos++; }
    else if (bc) { if (c == '*' && c1 == '/') { bc = 0; pos += 2; } else pos++; }
    else if (str || ustr) {
      if (c == (str ? '"' : '\'')) { str = ustr = 0; pos++; }
      else {
        uint8_t v = c; uint64_t adv = 1;
        if (c == '\\') {
          if (pos + 1 >= n) { stop = 1; continue; }
          v = c1; adv = 2;
          if (c1 == 'n') v = '\n'; else if (c1 == 'r') v = '\r'; else if (c1 == 't') v = '\t';
        }
        if (str) emit(v, 1, 0, en); else emit((uint64_t)(int64_t)(int8_t)v & 0xFFFF, 2, big, en);
        pos += adv;
      }
    }
    else if (c == '?') { en = !en; pos++; }
    else if (c == '$') { big = !big; pos++; }
    else if (c == '#' || c == '%') {
      int k = 1; pos++;
      if (c == '#') { for (int j = 0; j < 3; j++) if (pos < n && t[pos] == '#' && k == j + 1) { k++; pos++; } }
      else if (pos < n && t[pos] == '%') { k = 2; pos++; }
      uint32_t kind = c == '#' ? 0 : (uint32_t)k;
      int width = c == '#' ? (1 << (k - 1)) : 4 * k;
      if (call < ncalls && call < MAXCALLS && c_kind[call] == kind && c_left[call] == n - pos) {
        emit(c_val[call], width, big, en); pos += c_used[call];
      } else { calls_ok = 0; stop = 1; }
      call++;
    }
    else {
      int h = hexval(c);
      if (h >= 0) { acc |= (uint8_t)h; if (high) acc <<= 4; else { emit(acc, 1, 0, en); acc = 0; } high = !high; }
      else if (c == '"') str = 1;
      else if (c == '\'') ustr = 1;
      else if (c == '/' && c1 == '/') lc = 1;
      else if (c == '/' && c1 == '*') bc = 1;
      pos++;
    }
  }
  ASSERT(calls_ok && (stop || call == ncalls), "numeric conversions are requested exactly where the syntax has # / % constructs, on the rest of the text");
  ASSERT(r == (int64_t)rn, "parsed data has the reference length (no exception)");
  ASSERT(ml == (want_mask ? (int64_t)rn : 0), "mask has the length of the data (empty when not requested)");
  ASSERT(rn <= 4 * LEN && rn <= CAP, "reference: at most 4 bytes per text character (a run of % signs), 16 in all for the cells used");
  if (r == (int64_t)rn && calls_ok) for (uint64_t i = 0; i < (4 * LEN < CAP ? 4 * LEN : CAP); i++) if (i < rn) {
    ASSERT(out[i] == ref[i], "parsed bytes equal the reference parser");
    if (want_mask && ml == (int64_t)rn) ASSERT(mout[i] == refm[i], "mask bytes equal the reference parser");
  }
}
