/* std::allocator<char> is an empty class; with -fno-inline its (explicitly instantiated, extern) ctors/dtor become calls */
void X__ZNSaIcEC2Ev(uint8_t* self) { (void)self; }
void X__ZNSaIcEC2ERKS_(uint8_t* self, uint8_t* o) { (void)self; (void)o; }
void X__ZNSaIcED2Ev(uint8_t* self) { (void)self; }
void X__ZNSaIcEC1Ev(uint8_t* self) { (void)self; }
void X__ZNSaIcEC1ERKS_(uint8_t* self, uint8_t* o) { (void)self; (void)o; }
void X__ZNSaIcED1Ev(uint8_t* self) { (void)self; }
