// C09 wrappers: format_data_string / parse_data_string / format_data (Strings.cc)
#include "wrap.hh"
#include "Strings.cc"
#include "Filesystem.cc" // only so that the native build links (load_file); unreachable with ALLOW_FILES off
using namespace phosg;

static inline std::string w_str(const uint8_t* p, size_t n) {
  return std::string(reinterpret_cast<const char*>(p), n);
}

// format_data_string(const void*, size, mask or nullptr, flags)
WEXPORT int64_t w_format_ds(const uint8_t* data, size_t n, const uint8_t* mask, uint32_t has_mask, uint64_t flags, uint8_t* out, size_t cap) {
  try {
    return w_copy_out(format_data_string(data, n, has_mask ? mask : nullptr, flags), out, cap);
  }
  W_CATCH_ALL
}
// the std::string overload (checks mask size == data size -> logic_error)
WEXPORT int64_t w_format_ds_str(const uint8_t* data, size_t n, const uint8_t* mask, size_t mask_n, uint64_t flags, uint8_t* out, size_t cap) {
  try {
    std::string d = w_str(data, n), m = w_str(mask, mask_n);
    return w_copy_out(format_data_string(d, &m, flags), out, cap);
  }
  W_CATCH_ALL
}
// parse_data_string(text, &mask, flags): data -> out, mask -> mask_out (same length as data is asserted by the harness)
WEXPORT int64_t w_parse_ds(const uint8_t* text, size_t n, uint32_t want_mask, uint64_t flags, uint8_t* out, size_t cap, uint8_t* mask_out, int64_t* mask_len) {
  try {
    std::string mask;
    std::string r = parse_data_string(w_str(text, n), want_mask ? &mask : nullptr, flags);
    *mask_len = w_copy_out(mask, mask_out, cap);
    return w_copy_out(r, out, cap);
  }
  W_CATCH_ALL
}
// parse_data_string on a std::string that REFERS to the caller's buffer instead of copying it: the parser walks s.c_str(), and
// with an ordinary short std::string that is the 16-byte small-string buffer inside the object, where an overrun past the NUL
// stays inside the object (invisible to CBMC's pointer checks and to ASan). Here the string representation {pointer, length,
// capacity} (libstdc++ layout, a valid "heap" state: pointer != local buffer, capacity == length) points at the caller's
// exact-size object text[0..n] (text[n] == 0 is the caller's duty), so one byte past the terminator is outside every object.
// The object is only ever used as `const std::string&` and never destroyed.
struct __attribute__((may_alias)) WStrRep { const char* p; size_t len; size_t cap; size_t unused; };
static_assert(sizeof(WStrRep) == sizeof(std::string) && alignof(WStrRep) == alignof(std::string), "libstdc++ std::string layout");
WEXPORT int64_t w_parse_ds_inplace(const uint8_t* text, size_t n, uint32_t want_mask, uint64_t flags, uint8_t* out, size_t cap, uint8_t* mask_out, int64_t* mask_len) {
  try {
    WStrRep rep{reinterpret_cast<const char*>(text), n, n, 0}; // typed stores: the pointer keeps its object identity in CBMC
    const std::string& s = *reinterpret_cast<const std::string*>(&rep);
    std::string mask;
    std::string r = parse_data_string(s, want_mask ? &mask : nullptr, flags);
    *mask_len = w_copy_out(mask, mask_out, cap);
    return w_copy_out(r, out, cap);
  }
  W_CATCH_ALL
}
// parse_data_string(format_data_string(data, mask, flags), &mask2): the round trip without leaving C++
WEXPORT int64_t w_ds_roundtrip(const uint8_t* data, size_t n, const uint8_t* mask, uint32_t has_mask, uint64_t flags, uint8_t* out, size_t cap, uint8_t* mask_out, int64_t* mask_len) {
  try {
    std::string text = format_data_string(data, n, has_mask ? mask : nullptr, flags);
    std::string mask2;
    std::string r = parse_data_string(text, &mask2, 0);
    *mask_len = w_copy_out(mask2, mask_out, cap);
    return w_copy_out(r, out, cap);
  }
  W_CATCH_ALL
}

// format_data (hex dump core) on data cut into three iovecs [0,c1) [c1,c2) [c2,n) (any of them may be empty); everything the
// function hands to write_data is appended to out. Returns the total length, W_CAPACITY if it does not fit.
struct WSink { uint8_t* out; size_t cap; size_t pos; bool overflow; };
// diff mode: the same, plus a previous buffer of the same size passed as the two iovecs [0,pc) [pc,n) (a partition unrelated
// to the one of the data)
WEXPORT int64_t w_format_data_diff(const uint8_t* data, const uint8_t* prev, size_t n, size_t c1, size_t c2, size_t pc, uint64_t start_address, uint64_t flags, uint8_t* out, size_t cap) {
  try {
    WSink sink{out, cap, 0, false};
    WSink* sp = &sink;
    struct iovec iovs[3], piovs[2];
    iovs[0].iov_base = const_cast<uint8_t*>(data); iovs[0].iov_len = c1;
    iovs[1].iov_base = const_cast<uint8_t*>(data) + c1; iovs[1].iov_len = c2 - c1;
    iovs[2].iov_base = const_cast<uint8_t*>(data) + c2; iovs[2].iov_len = n - c2;
    piovs[0].iov_base = const_cast<uint8_t*>(prev); piovs[0].iov_len = pc;
    piovs[1].iov_base = const_cast<uint8_t*>(prev) + pc; piovs[1].iov_len = n - pc;
    format_data([sp](const void* p, size_t len) {
      const uint8_t* b = reinterpret_cast<const uint8_t*>(p);
      for (size_t i = 0; i < len; i++) {
        if (sp->pos < sp->cap) sp->out[sp->pos] = b[i]; else sp->overflow = true;
        sp->pos++;
      }
    }, iovs, 3, start_address, piovs, 2, flags);
    if (sink.overflow) return W_CAPACITY;
    return static_cast<int64_t>(sink.pos);
  }
  W_CATCH_ALL
}
WEXPORT int64_t w_format_data(const uint8_t* data, size_t n, size_t c1, size_t c2, uint64_t start_address, uint64_t flags, uint8_t* out, size_t cap) {
  try {
    WSink sink{out, cap, 0, false};
    WSink* sp = &sink;
    struct iovec iovs[3];
    iovs[0].iov_base = const_cast<uint8_t*>(data); iovs[0].iov_len = c1;
    iovs[1].iov_base = const_cast<uint8_t*>(data) + c1; iovs[1].iov_len = c2 - c1;
    iovs[2].iov_base = const_cast<uint8_t*>(data) + c2; iovs[2].iov_len = n - c2;
    format_data([sp](const void* p, size_t len) {
      const uint8_t* b = reinterpret_cast<const uint8_t*>(p);
      for (size_t i = 0; i < len; i++) {
        if (sp->pos < sp->cap) sp->out[sp->pos] = b[i]; else sp->overflow = true;
        sp->pos++;
      }
    }, iovs, 3, start_address, nullptr, 0, flags);
    if (sink.overflow) return W_CAPACITY;
    return static_cast<int64_t>(sink.pos);
  }
  W_CATCH_ALL
}

// diff mode with the escape sequences captured out of band: a write_data call whose first byte is ESC (0x1B) is not appended to
// the text but recorded as an event {position in the text so far, length, first 8 bytes}; every other call is appended as above.
// The harness decodes the event bytes itself. Purpose: the text positions stay independent of the data (with the sequences inline
// every position after the first conditional highlight is symbolic for the solver). An ESC that is not the first byte of a call
// stays in the text, where the harness's dump parser rejects it.
struct WSinkEv { uint8_t* out; size_t cap; size_t pos; bool overflow; uint64_t* ev_pos; uint8_t* ev_len; uint8_t* ev_bytes; size_t ev_cap; size_t ev_n; };
WEXPORT int64_t w_format_data_diff_ev(const uint8_t* data, const uint8_t* prev, uint32_t has_prev, size_t n, size_t c1, size_t c2, size_t pc, uint64_t start_address, uint64_t flags, uint8_t* out, size_t cap,
                                      uint64_t* ev_pos, uint8_t* ev_len, uint8_t* ev_bytes, size_t ev_cap, uint64_t* ev_n) {
  try {
    WSinkEv sink{out, cap, 0, false, ev_pos, ev_len, ev_bytes, ev_cap, 0};
    WSinkEv* sp = &sink;
    struct iovec iovs[3], piovs[2];
    iovs[0].iov_base = const_cast<uint8_t*>(data); iovs[0].iov_len = c1;
    iovs[1].iov_base = const_cast<uint8_t*>(data) + c1; iovs[1].iov_len = c2 - c1;
    iovs[2].iov_base = const_cast<uint8_t*>(data) + c2; iovs[2].iov_len = n - c2;
    piovs[0].iov_base = const_cast<uint8_t*>(prev); piovs[0].iov_len = pc;
    piovs[1].iov_base = const_cast<uint8_t*>(prev) + pc; piovs[1].iov_len = n - pc;
    format_data([sp](const void* p, size_t len) {
      const uint8_t* b = reinterpret_cast<const uint8_t*>(p);
      if (len > 0 && b[0] == 0x1B) {
        if (sp->ev_n < sp->ev_cap) {
          sp->ev_pos[sp->ev_n] = sp->pos;
          sp->ev_len[sp->ev_n] = static_cast<uint8_t>(len > 255 ? 255 : len);
          for (size_t i = 0; i < 8; i++) sp->ev_bytes[8 * sp->ev_n + i] = i < len ? b[i] : 0;
        } else sp->overflow = true;
        sp->ev_n++;
        return;
      }
      for (size_t i = 0; i < len; i++) {
        if (sp->pos < sp->cap) sp->out[sp->pos] = b[i]; else sp->overflow = true;
        sp->pos++;
      }
    }, iovs, 3, start_address, has_prev ? piovs : nullptr, has_prev ? 2 : 0, flags);
    *ev_n = sink.ev_n;
    if (sink.overflow) return W_CAPACITY;
    return static_cast<int64_t>(sink.pos);
  }
  W_CATCH_ALL
}
