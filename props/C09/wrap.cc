// C09 wrappers: format_data_string / parse_data_string / format_data (Strings.cc)
#include "wrap.hh"
#include "Strings.cc"
#include "Filesystem.cc" // only so that the native build links (load_file); unreachable with ALLOW_FILES off
using namespace phosg;

static inline std::string w_str(const uint8_t* p, size_t n) {
  return std::string(reinterpret_cast<const char*>(p), n);
}

// format_data_string(const void*, size, mask or nullptr, flags)
WEXPORT int64_t w_format_ds(const uint8_t* data, size_t n, const uint8_t* mask, uint32_t has_mask, uint64_t flags, uint8_t* out, size_t cap) {
  try {
    return w_copy_out(format_data_string(data, n, has_mask ? mask : nullptr, flags), out, cap);
  }
  W_CATCH_ALL
}
// the std::string overload (checks mask size == data size -> logic_error)
WEXPORT int64_t w_format_ds_str(const uint8_t* data, size_t n, const uint8_t* mask, size_t mask_n, uint64_t flags, uint8_t* out, size_t cap) {
  try {
    std::string d = w_str(data, n), m = w_str(mask, mask_n);
    return w_copy_out(format_data_string(d, &m, flags), out, cap);
  }
  W_CATCH_ALL
}
// parse_data_string(text, &mask, flags): data -> out, mask -> mask_out (same length as data is asserted by the harness)
WEXPORT int64_t w_parse_ds(const uint8_t* text, size_t n, uint32_t want_mask, uint64_t flags, uint8_t* out, size_t cap, uint8_t* mask_out, int64_t* mask_len) {
  try {
    std::string mask;
    std::string r = parse_data_string(w_str(text, n), want_mask ? &mask : nullptr, flags);
    *mask_len = w_copy_out(mask, mask_out, cap);
    return w_copy_out(r, out, cap);
  }
  W_CATCH_ALL
}
// parse_data_string(format_data_string(data, mask, flags), &mask2): the round trip without leaving C++
WEXPORT int64_t w_ds_roundtrip(const uint8_t* data, size_t n, const uint8_t* mask, uint32_t has_mask, uint64_t flags, uint8_t* out, size_t cap, uint8_t* mask_out, int64_t* mask_len) {
  try {
    std::string text = format_data_string(data, n, has_mask ? mask : nullptr, flags);
    std::string mask2;
    std::string r = parse_data_string(text, &mask2, 0);
    *mask_len = w_copy_out(mask2, mask_out, cap);
    return w_copy_out(r, out, cap);
  }
  W_CATCH_ALL
}
