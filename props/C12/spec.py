ID = 'C12'
UNITS = {'lru': dict(wrap='wrap.cc', shim=True, new_block=256, cxxflags=['-DVERIF_UMAP_CAP=4', '-DVERIF_UMAP_POOL=2', '-I/tmp/agentF_shim'])}
BOUNDS = 'TODO'
STUBS = []
OUTSIDE = []
ASSUMPTIONS = []

def queries(tier):
    qs = []
    for k in ([1, 2, 3] if tier == 'quick' else [1, 2, 3, 4]):
        qs.append(dict(name='set_hist_k%d' % k, unit='lru', harness='h_set.c', defs={'K': k}, unwind=max(k, 8) + 2, timeout=1500, mem_gb=10,
                       object_bits=12, desc='LRUSet history', bounds='k=%d' % k))
        qs.append(dict(name='set_hist1_k%d' % k, unit='lru', harness='h_set.c', defs={'K': k, 'ONE_INSTANCE': 1}, unwind=max(k, 8) + 2, timeout=1500, mem_gb=10,
                       object_bits=12, desc='LRUSet history', bounds='k=%d' % k))
    return qs
