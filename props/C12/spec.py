ID = 'C12'
UNITS = {'lru': dict(wrap='wrap.cc', shim=True, new_block=64, cxxflags=['-DVERIF_UMAP_CAP=4', '-DVERIF_UMAP_NODES'])}
BOUNDS = 'TODO'
STUBS = []
OUTSIDE = []
ASSUMPTIONS = []

def queries(tier):
    qs = []
    for k in ([1, 2, 3] if tier == 'quick' else [1, 2, 3, 4]):
        for w in range(1 << k):
            qs.append(dict(name='set_hist_k%d_w%d' % (k, w), unit='lru', harness='h_set.c', defs={'K': k, 'WHICH': w}, unwind=10, timeout=1500, mem_gb=10,
                       object_bits=12, desc='LRUSet history', bounds='k=%d' % k))
    return qs
