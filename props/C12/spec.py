ID = 'C12'
# shim=True: <unordered_map> resolves to engine/shim/unordered_map; -DVERIF_UMAP_NODES selects the node-based variant
# (every element its own operator-new node, table of VERIF_UMAP_CAP node pointers). The native "real" build uses libstdc++.
# memory caps per query (GB) from measured peak RSS: history k=3 2.3-2.5, k=4 mixed patterns 2.8, k=4 single-instance pattern 3.7, step 3/3 entries 2.0
UNITS = {'lru': dict(wrap='wrap.cc', shim=True, new_block=64, cxxflags=['-DVERIF_UMAP_CAP=4', '-DVERIF_UMAP_NODES'])}

BOUNDS = ('LRUSet<int> and LRUMap<int,int>, two instances each, keys {0,1,2}, sizes {0,1,2}, values {0,1,2}. '
          '(1) histories from two fresh instances: every sequence of k operations (quick: k<=2 with all target-instance patterns plus one k=3 pattern per class; '
          'thorough: k<=3 with all patterns plus k=4 for the patterns listed in the query names) over the full alphabet (set: insert, emplace, erase, touch(k), '
          'touch(k,size), touch(k,negative), change_size, peek, evict_object, clear, swap; map: insert(K&&,V&&), emplace, erase, '
          'at, item_size, change_size(touch=true/false), touch x3, evict_object, clear, swap, empty), symbolic key/size/value, '
          'target instance per step concrete, then a full drain of both instances. '
          '(2) inductive step: EVERY well-formed state of the two instances with up to 3 entries each (symbolic distinct keys, '
          'sizes, values, recency order and hash-map insertion order; state assembled directly from nodes and links), ONE '
          'symbolic operation on instance 0 (swap partner: instance 1), then the complete link structure of both instances is '
          'compared with the reference => histories of any length over 3 keys (thorough: all 16 size combinations; quick: 5 of them). '
          '(3) heap: CBMC pointer checks (use-after-free, invalid free, double free) in every query; --memory-leak-check on '
          'exception-free histories/steps that end with destruction of populated instances.')
STUBS = ['std::unordered_map -> engine/shim/unordered_map_nodes: node-per-element model (operator new/delete per element, stable addresses, '
         'swap exchanges node ownership), linear search in a 4-entry node table instead of hashing/buckets; capacity overflow is an assertion failure '
         '(never reached with 3 keys)']
OUTSIDE = ['histories longer than 4 operations that are not covered by the inductive step argument (more than 3 distinct keys per instance, sizes/values outside {0,1,2})',
           'at k=4 only selected target-instance patterns (k<=3: all)',
           'key/value types other than int (non-trivial copy/move, e.g. std::string)',
           "libstdc++'s hash table itself (rehashing, bucket iteration)",
           'LRUMap::insert(const KeyT&, const ValueT&, size_t) and LRUMap::at(const KeyT&) const: neither compiles when instantiated (NOTES.md), so no history can call them',
           '--memory-leak-check only on histories in which no exception is thrown (the engine exception model never frees exception objects)',
           'the inductive step assumes that behaviour does not depend on which table slot of the shim a node occupies beyond the symbolic insertion order (holes left by erase are not part of the pre-state family)']
ASSUMPTIONS = ['the reference semantics are those pinned by LRUSetTest/LRUMapTest: LRUSet::insert/emplace of an existing key replace the size and refresh recency; '
               'LRUMap::emplace of an existing key changes nothing; LRUSet::change_size and LRUMap::item_size / change_size(touch=false) do not refresh recency; every other successful keyed call does']

_SET_OPS = 'insert, emplace, erase, touch x3, change_size, peek, evict_object, clear, swap'
_MAP_OPS = 'insert(K&&,V&&), emplace, erase, at, item_size, change_size x2, touch x3, evict_object, clear, swap, empty'


def queries(tier):
    qs = []
    quick = (tier == 'quick')
    # (1) bounded histories from fresh instances
    k4_patterns = {'set': [0, 5, 6, 10], 'map': [5, 10]}
    for cls, ops in (('set', _SET_OPS), ('map', _MAP_OPS)):
        cells = [(k, w) for k in (1, 2) for w in range(1 << k)]
        if quick:
            cells += [(3, 5)] if cls == 'set' else [(3, 2)]
        else:
            cells += [(3, w) for w in range(8)] + [(4, w) for w in k4_patterns[cls]]
        for k, w in cells:
            pat = ''.join(str((w >> i) & 1) for i in range(k))
            qs.append(dict(name='%s_hist_k%d_w%d' % (cls, k, w), unit='lru', harness='h_%s.c' % cls, defs={'K': k, 'WHICH': w}, unwind=6,
                           timeout=2400, mem_gb=(5 if (k, w) == (4, 0) else {1: 3, 2: 3, 3: 3.5, 4: 3.5}[k]), object_bits=12, cost=(10 ** k) * (3 if (k, w) == (4, 0) else 1),
                           desc='%s: every history of %d operations (%s) on two fresh instances, operation i applied to instance %s: return values, size(), count() after each step and the final drain order equal the reference recency list' % (
                               'LRUSet<int>' if cls == 'set' else 'LRUMap<int,int>', k, ops, pat),
                           bounds='k=%d operations, 3 keys, sizes/values 0..2, target pattern %s' % (k, pat)))
    # (2) inductive step from every well-formed state
    step_quick = [(0, 0), (1, 0), (2, 1), (3, 2), (0, 3)]
    for cls, ops in (('set', _SET_OPS), ('map', _MAP_OPS)):
        for m0 in range(4):
            for m1 in range(4):
                if quick and (m0, m1) not in step_quick:
                    continue
                qs.append(dict(name='%s_step_m%d_m%d' % (cls, m0, m1), unit='lru', harness='h_%s_step.c' % cls, defs={'M0': m0, 'M1': m1}, unwind=16,
                               timeout=2400, mem_gb=3, object_bits=12, cost=30 * (m0 + m1 + 1),
                               desc='%s inductive step: any well-formed state with %d / %d entries in instance 0 / 1, one symbolic operation (%s): results and the complete link structure of both instances equal the reference' % (
                                   'LRUSet<int>' if cls == 'set' else 'LRUMap<int,int>', m0, m1, ops),
                               bounds='pre-state: %d and %d entries, symbolic keys/sizes/values/recency order/insertion order; 1 operation' % (m0, m1)))
    # (3) heap hygiene: leak check at exit on exception-free runs that destroy populated instances
    for cls in ('set', 'map'):
        for k, w in ((2, 1), (3, 2)) if not quick else ((2, 1),):
            qs.append(dict(name='%s_leak_hist_k%d_w%d' % (cls, k, w), unit='lru', harness='h_%s.c' % cls, defs={'K': k, 'WHICH': w, 'NODRAIN': 1, 'NOTHROW': 1},
                           unwind=6, timeout=2400, mem_gb=3, object_bits=12, flags=['--memory-leak-check'], cost=10 ** k,
                           desc='%s: exception-free histories of %d operations, instances destroyed while populated: no leak at exit (plus all checks of the history harness)' % (cls, k),
                           bounds='k=%d, scripts in which no operation throws' % k))
        for m0, m1 in ((2, 1), (3, 3)) if not quick else ((2, 1),):
            qs.append(dict(name='%s_leak_step_m%d_m%d' % (cls, m0, m1), unit='lru', harness='h_%s_step.c' % cls, defs={'M0': m0, 'M1': m1, 'NOTHROW': 1},
                           unwind=16, timeout=2400, mem_gb=3, object_bits=12, flags=['--memory-leak-check'], cost=30 * (m0 + m1 + 1),
                           desc='%s inductive step with --memory-leak-check: state, one non-throwing operation, destruction: no leak at exit' % cls,
                           bounds='pre-state %d/%d entries, operations that do not throw' % (m0, m1)))
    return qs
