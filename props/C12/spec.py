ID = 'C12'
UNITS = {'lru': dict(wrap='wrap.cc', shim=True, new_block=64, cxxflags=['-DVERIF_UMAP_CAP=4', '-DVERIF_UMAP_NODES'])}
BOUNDS = 'TODO'
STUBS = []
OUTSIDE = []
ASSUMPTIONS = []

def queries(tier):
    qs = []
    for cls in ('set', 'map'):
        for k in ([1, 2, 3] if tier == 'quick' else [1, 2, 3, 4]):
            for w in range(1 << k):
                qs.append(dict(name='%s_hist_k%d_w%d' % (cls, k, w), unit='lru', harness='h_%s.c' % cls, defs={'K': k, 'WHICH': w}, unwind=6, timeout=1500, mem_gb=10,
                           object_bits=12, desc='history', bounds='k=%d' % k))
        for m0 in range(4):
            for m1 in range(4):
                qs.append(dict(name='%s_step_m%d_m%d' % (cls, m0, m1), unit='lru', harness='h_%s_step.c' % cls, defs={'M0': m0, 'M1': m1}, unwind=16, timeout=1500, mem_gb=10,
                           object_bits=12, desc='step', bounds='m0=%d m1=%d' % (m0, m1)))
    for cls in ('set', 'map'):
        for k, w in ((2, 1), (3, 2)):
            qs.append(dict(name='%s_leak_hist_k%d_w%d' % (cls, k, w), unit='lru', harness='h_%s.c' % cls, defs={'K': k, 'WHICH': w, 'NODRAIN': 1, 'NOTHROW': 1}, unwind=6, timeout=1500, mem_gb=10,
                       object_bits=12, flags=['--memory-leak-check'], desc='history, destroyed populated, leak check', bounds='k=%d' % k))
        for m0, m1 in ((2, 1), (3, 3)):
            qs.append(dict(name='%s_leak_step_m%d_m%d' % (cls, m0, m1), unit='lru', harness='h_%s_step.c' % cls, defs={'M0': m0, 'M1': m1, 'NOTHROW': 1}, unwind=16, timeout=1500, mem_gb=10,
                       object_bits=12, flags=['--memory-leak-check'], desc='step, destroyed populated, leak check', bounds='m0=%d m1=%d' % (m0, m1)))
    return qs
