/* C12, inductive step for LRUMap<int,int>: ANY well-formed state of two instances, ONE operation, full check of the state.
 * Pre-state (built directly from map nodes and links, not through the API): instance w holds M0 / M1 (concrete per
 * cell) entries with symbolic distinct keys in {0..NKEYS-1}, symbolic sizes {0,1,2}, in symbolic recency order, entered
 * into the hash map in a symbolic order. One symbolic operation (14 kinds, symbolic key/value/size) is applied to instance 0
 * with instance 1 as the swap partner. Post-state: return value, size(), count() of both instances and BOTH instances'
 * complete link structure (forward walk from head, backward walk from tail, every node being the map's node for its
 * key) equal the reference list. The reached state is therefore again a member of the pre-state family (for the
 * expected list), so by induction over the history length every history over NKEYS keys behaves like the reference;
 * the base case (fresh instances) is the M0 = M1 = 0 cell together with h_map.c. Instances are destroyed populated. */
#include "lru_ref.h"
#define STEP_WALK 6
#define STEP_NOUT (5 + 4 * STEP_WALK)
int64_t w_lrumap_step(uint8_t* st, uint64_t m0, uint64_t m1, uint8_t op, uint8_t key, uint8_t val, uint8_t sz, int64_t* out);

static void gen_state(uint8_t* st, Ref* r, int m) {
  /* st: keys[4], sizes[4], ins[4], vals[4] */
  ref_init(r);
  for (int j = 0; j < 4; j++) { st[j] = 0; st[4 + j] = 0; st[8 + j] = 0; st[12 + j] = 0; }
  for (int j = 0; j < m; j++) {
    st[j] = (uint8_t)in_range(0, NKEYS - 1);
    st[4 + j] = (uint8_t)in_range(0, 2);
    st[8 + j] = (uint8_t)in_range(0, m - 1);
    for (int i = 0; i < j; i++) { ASSUME(st[i] != st[j]); ASSUME(st[8 + i] != st[8 + j]); }
    st[12 + j] = (uint8_t)in_range(0, 2);
    r->key[j] = st[j]; r->size[j] = st[4 + j]; r->val[j] = st[12 + j];
  }
  r->n = m;
}

static void check_walk(const int64_t* w, const Ref* r, int forward) {
  ASSERT(w[0] == r->n, "the link chain from head (next) / tail (prev) has exactly count() nodes and ends in null");
  for (int j = 0; j < NKEYS; j++) {
    if (j < r->n) {
      int p = forward ? j : r->n - 1 - j;
      ASSERT(w[1 + j] == ENC_KVS(r->key[p], r->val[p], r->size[p]), "node j of the chain is the map's node of the expected key with the expected value and size");
    }
  }
}

void harness(void) {
  uint8_t st[32];
  int64_t out[STEP_NOUT] = {0};
  Ref r[2];
  gen_state(st, &r[0], M0);
  gen_state(st + 16, &r[1], M1);
  uint8_t op = (uint8_t)in_range(0, M_NOPS - 1), key = (uint8_t)in_range(0, NKEYS - 1), sz = (uint8_t)in_range(0, 2), val = (uint8_t)in_range(0, 2);
  int64_t rc = w_lrumap_step(st, M0, M1, op, key, val, sz, out);
  OBS(rc);
#ifndef VERIF_CBMC
  for (int i = 0; i < STEP_NOUT; i++) OBS(out[i]);
#endif
  ASSERT(rc == 0, "no exception escapes");
  int64_t exp = ref_map_step(&r[0], &r[1], op, key, val, sz);
#ifdef NOTHROW /* see h_set.c: used with --memory-leak-check */
  ASSUME(exp != -1);
  ASSUME(!((op == M_TOUCH || op == M_TOUCH_SIZE || op == M_TOUCH_NEG || op == M_CHANGE_SIZE || op == M_CHANGE_SIZE_NOTOUCH) && exp == 0));
#endif
  ASSERT(out[0] == exp, "return value of the operation equals the reference (new/existing flag, last stored value, LRU entry, out_of_range)");
  ASSERT(out[1] == ref_total(&r[0]), "size() of instance 0 is the sum of the current entries' sizes");
  ASSERT(out[2] == r[0].n, "count() of instance 0 is the number of keys");
  ASSERT(out[3] == ref_total(&r[1]), "size() of instance 1 is the sum of the current entries' sizes");
  ASSERT(out[4] == r[1].n, "count() of instance 1 is the number of keys");
  check_walk(out + 5, &r[0], 1);
  check_walk(out + 5 + STEP_WALK, &r[0], 0);
  check_walk(out + 5 + 2 * STEP_WALK, &r[1], 1);
  check_walk(out + 5 + 3 * STEP_WALK, &r[1], 0);
}
