/* C12: reference recency list shared by the harnesses (plain C, independent of phosg). */
#ifndef LRU_REF_H
#define LRU_REF_H
#include "harness.h"
#ifndef NKEYS
#define NKEYS 3
#endif
#define ENC_KS(k, s) (1000 + (int64_t)(k) * 16 + (int64_t)(s))
#define ENC_KVS(k, v, s) (10000 + (int64_t)(k) * 256 + (int64_t)(v) * 16 + (int64_t)(s))

/* index 0 = most recently used, index n-1 = least recently used */
typedef struct { uint8_t key[NKEYS + 1]; uint8_t size[NKEYS + 1]; uint8_t val[NKEYS + 1]; int n; } Ref;

static void ref_init(Ref* r) { r->n = 0; for (int j = 0; j <= NKEYS; j++) { r->key[j] = 0; r->size[j] = 0; r->val[j] = 0; } }
static int ref_find(const Ref* r, int k) {
  for (int j = 0; j < NKEYS; j++) if (j < r->n && r->key[j] == k) return j;
  return -1;
}
static void ref_remove(Ref* r, int pos) {
  for (int j = 0; j + 1 < NKEYS; j++) if (j >= pos && j + 1 < r->n) { r->key[j] = r->key[j + 1]; r->size[j] = r->size[j + 1]; r->val[j] = r->val[j + 1]; }
  r->n--;
}
static void ref_push_front(Ref* r, int k, int s, int v) {
  for (int j = NKEYS - 1; j > 0; j--) if (j <= r->n) { r->key[j] = r->key[j - 1]; r->size[j] = r->size[j - 1]; r->val[j] = r->val[j - 1]; }
  r->key[0] = (uint8_t)k; r->size[0] = (uint8_t)s; r->val[0] = (uint8_t)v; r->n++;
}
static int64_t ref_total(const Ref* r) {
  int64_t t = 0;
  for (int j = 0; j < NKEYS; j++) if (j < r->n) t += r->size[j];
  return t;
}

/* LRUSet semantics */
enum { S_INSERT = 0, S_EMPLACE, S_ERASE, S_TOUCH, S_TOUCH_SIZE, S_CHANGE_SIZE, S_PEEK, S_EVICT, S_CLEAR, S_SWAP, S_TOUCH_NEG, S_NOPS };

/* applies one LRUSet operation to the reference; t = target, o = the other instance; returns the expected result */
static int64_t ref_set_step(Ref* t, Ref* o, int op, int k, int s) {
  int pos = ref_find(t, k);
  int64_t exp = 0;
  switch (op) {
    case S_INSERT:
    case S_EMPLACE: /* new key: added as most recent, true; existing: size replaced, recency refreshed, false */
      exp = (pos < 0);
      if (pos >= 0) ref_remove(t, pos);
      ref_push_front(t, k, s, 0);
      break;
    case S_ERASE:
      exp = (pos >= 0);
      if (pos >= 0) ref_remove(t, pos);
      break;
    case S_TOUCH:
    case S_TOUCH_NEG: /* negative new_size = keep the size */
      exp = (pos >= 0);
      if (pos >= 0) { int os = t->size[pos]; ref_remove(t, pos); ref_push_front(t, k, os, 0); }
      break;
    case S_TOUCH_SIZE:
      exp = (pos >= 0);
      if (pos >= 0) { ref_remove(t, pos); ref_push_front(t, k, s, 0); }
      break;
    case S_CHANGE_SIZE: /* LRUSet::change_size does not refresh recency */
      exp = (pos >= 0);
      if (pos >= 0) t->size[pos] = (uint8_t)s;
      break;
    case S_PEEK:
      exp = t->n ? ENC_KS(t->key[t->n - 1], t->size[t->n - 1]) : -1;
      break;
    case S_EVICT:
      exp = t->n ? ENC_KS(t->key[t->n - 1], t->size[t->n - 1]) : -1;
      if (t->n) t->n--;
      break;
    case S_CLEAR:
      t->n = 0;
      break;
    case S_SWAP: {
      Ref tmp = *t; *t = *o; *o = tmp;
      break;
    }
  }
  return exp;
}

/* LRUMap semantics */
enum { M_INSERT = 0, M_EMPLACE, M_ERASE, M_AT, M_ITEM_SIZE, M_CHANGE_SIZE, M_CHANGE_SIZE_NOTOUCH, M_TOUCH, M_TOUCH_SIZE, M_TOUCH_NEG,
  M_EVICT, M_CLEAR, M_SWAP, M_EMPTY, M_NOPS };

static int64_t ref_map_step(Ref* t, Ref* o, int op, int k, int v, int s) {
  int pos = ref_find(t, k);
  int64_t exp = 0;
  switch (op) {
    case M_INSERT: /* new: stored as most recent, true; existing: value and size replaced, recency refreshed, false */
      exp = (pos < 0);
      if (pos >= 0) ref_remove(t, pos);
      ref_push_front(t, k, s, v);
      break;
    case M_EMPLACE: /* like std::unordered_map::emplace: an existing key is left completely untouched */
      exp = (pos < 0);
      if (pos < 0) ref_push_front(t, k, s, v);
      break;
    case M_ERASE:
      exp = (pos >= 0);
      if (pos >= 0) ref_remove(t, pos);
      break;
    case M_AT: /* lookup returns the last stored value and refreshes recency */
      exp = (pos >= 0) ? 100 + t->val[pos] : -1;
      if (pos >= 0) { int os = t->size[pos], ov = t->val[pos]; ref_remove(t, pos); ref_push_front(t, k, os, ov); }
      break;
    case M_ITEM_SIZE: /* no recency refresh */
      exp = (pos >= 0) ? 100 + t->size[pos] : -1;
      break;
    case M_CHANGE_SIZE: /* touch = true (default) */
      exp = (pos >= 0);
      if (pos >= 0) { int ov = t->val[pos]; ref_remove(t, pos); ref_push_front(t, k, s, ov); }
      break;
    case M_CHANGE_SIZE_NOTOUCH:
      exp = (pos >= 0);
      if (pos >= 0) t->size[pos] = (uint8_t)s;
      break;
    case M_TOUCH:
    case M_TOUCH_NEG:
      exp = (pos >= 0);
      if (pos >= 0) { int os = t->size[pos], ov = t->val[pos]; ref_remove(t, pos); ref_push_front(t, k, os, ov); }
      break;
    case M_TOUCH_SIZE:
      exp = (pos >= 0);
      if (pos >= 0) { int ov = t->val[pos]; ref_remove(t, pos); ref_push_front(t, k, s, ov); }
      break;
    case M_EVICT:
      exp = t->n ? ENC_KVS(t->key[t->n - 1], t->val[t->n - 1], t->size[t->n - 1]) : -1;
      if (t->n) t->n--;
      break;
    case M_CLEAR:
      t->n = 0;
      break;
    case M_SWAP: {
      Ref tmp = *t; *t = *o; *o = tmp;
      break;
    }
    case M_EMPTY:
      exp = (t->n == 0);
      break;
  }
  return exp;
}
#endif
