/* C12: LRUSet<int> vs a reference recency list under every history of K operations.
 * K = number of operations (concrete cell), everything else symbolic: operation, target instance (two instances, so that
 * swap is meaningful), key in {0..NKEYS-1}, size in {0,1,2}.
 * After every step: return value, size() and count() of BOTH instances equal the reference; at the end both instances
 * are drained with evict_object and the eviction order (key,size) equals the reference order, followed by out_of_range.
 * Options: NODRAIN  = instances are destroyed while populated (used with --memory-leak-check)
 *          NOTHROW  = peek/evict_object on an empty instance are excluded (the engine's exception model never frees the
 *                     exception object, which would be reported by --memory-leak-check)
 * WHICH = bit i selects the instance operation i is applied to (concrete per cell: a symbolic choice between the two
 *         objects makes every access a two-way pointer case split, measured 70x slower) */
#include "harness.h"
#ifndef WHICH
#define WHICH 0
#endif
#ifndef NKEYS
#define NKEYS 3
#endif
#define DRAIN_MAX NKEYS
int64_t w_lruset_history(uint8_t* op, uint8_t* which, uint8_t* key, uint8_t* sz, uint64_t n, int64_t* out, int64_t* drain, uint64_t drain_max);
int64_t w_lruset_history_nodrain(uint8_t* op, uint8_t* which, uint8_t* key, uint8_t* sz, uint64_t n, int64_t* out);

enum { S_INSERT = 0, S_EMPLACE, S_ERASE, S_TOUCH, S_TOUCH_SIZE, S_CHANGE_SIZE, S_PEEK, S_EVICT, S_CLEAR, S_SWAP, S_TOUCH_NEG, S_NOPS };
#define ENC_KS(k, s) (1000 + (int64_t)(k) * 16 + (int64_t)(s))

/* reference recency list: index 0 = most recently used, index n-1 = least recently used */
typedef struct { uint8_t key[NKEYS]; uint8_t size[NKEYS]; int n; } Ref;

static int ref_find(const Ref* r, int k) {
  for (int j = 0; j < NKEYS; j++) if (j < r->n && r->key[j] == k) return j;
  return -1;
}
static void ref_remove(Ref* r, int pos) {
  for (int j = 0; j + 1 < NKEYS; j++) if (j >= pos && j + 1 < r->n) { r->key[j] = r->key[j + 1]; r->size[j] = r->size[j + 1]; }
  r->n--;
}
static void ref_push_front(Ref* r, int k, int s) {
  for (int j = NKEYS - 1; j > 0; j--) if (j <= r->n) { r->key[j] = r->key[j - 1]; r->size[j] = r->size[j - 1]; }
  r->key[0] = (uint8_t)k; r->size[0] = (uint8_t)s; r->n++;
}
static int64_t ref_total(const Ref* r) {
  int64_t t = 0;
  for (int j = 0; j < NKEYS; j++) if (j < r->n) t += r->size[j];
  return t;
}

void harness(void) {
  uint8_t op[K + 1], which[K + 1], key[K + 1], sz[K + 1];
  int64_t out[5 * K + 1], drain[2 * (DRAIN_MAX + 1)];
  for (int i = 0; i < K; i++) {
    op[i] = (uint8_t)in_range(0, S_NOPS - 1);
    which[i] = (uint8_t)((WHICH >> i) & 1); /* concrete per cell */
    key[i] = (uint8_t)in_range(0, NKEYS - 1);
    sz[i] = (uint8_t)in_range(0, 2);
  }
  for (int i = 0; i < 2 * (DRAIN_MAX + 1); i++) drain[i] = -77;
#ifdef NODRAIN
  int64_t rc = w_lruset_history_nodrain(op, which, key, sz, K, out);
#else
  int64_t rc = w_lruset_history(op, which, key, sz, K, out, drain, DRAIN_MAX);
#endif
  OBS(rc);
  ASSERT(rc == 0, "no exception escapes a history; after the drain both instances are empty (size 0, count 0)");

  Ref r[2];
  r[0].n = 0; r[1].n = 0;
  for (int j = 0; j < NKEYS; j++) { r[0].key[j] = r[1].key[j] = 0; r[0].size[j] = r[1].size[j] = 0; }
  for (int i = 0; i < K; i++) {
    Ref* t = &r[which[i] & 1];
    int k = key[i], s = sz[i];
    int pos = ref_find(t, k);
    int64_t exp = 0;
    switch (op[i]) {
      case S_INSERT:
      case S_EMPLACE: /* new key: added as most recent, true; existing: size replaced, refreshed, false */
        exp = (pos < 0);
        if (pos >= 0) ref_remove(t, pos);
        ref_push_front(t, k, s);
        break;
      case S_ERASE:
        exp = (pos >= 0);
        if (pos >= 0) ref_remove(t, pos);
        break;
      case S_TOUCH:
      case S_TOUCH_NEG: /* negative new_size = keep the size */
        exp = (pos >= 0);
        if (pos >= 0) { int os = t->size[pos]; ref_remove(t, pos); ref_push_front(t, k, os); }
        break;
      case S_TOUCH_SIZE:
        exp = (pos >= 0);
        if (pos >= 0) { ref_remove(t, pos); ref_push_front(t, k, s); }
        break;
      case S_CHANGE_SIZE: /* LRUSet::change_size does not refresh recency */
        exp = (pos >= 0);
        if (pos >= 0) t->size[pos] = (uint8_t)s;
        break;
      case S_PEEK:
        exp = t->n ? ENC_KS(t->key[t->n - 1], t->size[t->n - 1]) : -1;
        break;
      case S_EVICT:
        exp = t->n ? ENC_KS(t->key[t->n - 1], t->size[t->n - 1]) : -1;
        if (t->n) t->n--;
        break;
      case S_CLEAR:
        t->n = 0;
        break;
      case S_SWAP: {
        Ref tmp = r[0]; r[0] = r[1]; r[1] = tmp;
        break;
      }
    }
#ifdef NOTHROW
    ASSUME(exp != -1);
#endif
    OBS(out[5 * i]); OBS(out[5 * i + 1]); OBS(out[5 * i + 2]); OBS(out[5 * i + 3]); OBS(out[5 * i + 4]);
    ASSERT(out[5 * i] == exp, "return value of the operation equals the reference (new/existing flag, LRU entry, out_of_range)");
    ASSERT(out[5 * i + 1] == ref_total(&r[0]), "size() of instance 0 is the sum of the current entries' sizes");
    ASSERT(out[5 * i + 2] == r[0].n, "count() of instance 0 is the number of keys");
    ASSERT(out[5 * i + 3] == ref_total(&r[1]), "size() of instance 1 is the sum of the current entries' sizes");
    ASSERT(out[5 * i + 4] == r[1].n, "count() of instance 1 is the number of keys");
  }
#ifndef NODRAIN
  for (int w = 0; w < 2; w++) {
    for (int j = 0; j <= DRAIN_MAX; j++) {
      int64_t d = drain[w * (DRAIN_MAX + 1) + j];
      OBS(d);
      if (j < r[w].n) {
        int p = r[w].n - 1 - j;
        ASSERT(d == ENC_KS(r[w].key[p], r[w].size[p]), "final drain: evict_object returns the entries in least-recently-used order");
      } else if (j == r[w].n) {
        ASSERT(d == -1, "final drain: evict_object on the emptied instance throws out_of_range");
      }
    }
  }
#endif
}
