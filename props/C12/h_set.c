/* C12: LRUSet<int> vs a reference recency list under every history of K operations starting from two fresh instances.
 * Concrete per cell: K = number of operations, WHICH = bit i selects the instance operation i is applied to (a symbolic
 * choice between the two objects makes every access a two-way pointer case split, measured 70x slower).
 * Symbolic: every operation (11 kinds incl. swap with the other instance), key in {0..NKEYS-1}, size in {0,1,2}.
 * After every step: return value, size() and count() of BOTH instances equal the reference; at the end both instances
 * are drained with evict_object and the eviction order (key,size) equals the reference order, followed by out_of_range.
 * Options: NODRAIN  = instances are destroyed while still populated (used with --memory-leak-check)
 *          NOTHROW  = scripts in which an exception is thrown (peek/evict/at on nothing, touch/change_size of a missing key,
 *                     which throw and catch internally) are excluded: the engine's exception model never frees the
 *                     exception object, which --memory-leak-check would report as a leak of the model */
#include "lru_ref.h"
#ifndef WHICH
#define WHICH 0
#endif
#define DRAIN_MAX NKEYS
int64_t w_lruset_history(uint8_t* op, uint8_t* which, uint8_t* key, uint8_t* sz, uint64_t n, int64_t* out, int64_t* drain, uint64_t drain_max);
int64_t w_lruset_history_nodrain(uint8_t* op, uint8_t* which, uint8_t* key, uint8_t* sz, uint64_t n, int64_t* out);

void harness(void) {
  uint8_t op[K + 1], which[K + 1], key[K + 1], sz[K + 1];
  int64_t out[5 * K + 1], drain[2 * (DRAIN_MAX + 1)] = {0};
  for (int i = 0; i < K; i++) {
    op[i] = (uint8_t)in_range(0, S_NOPS - 1);
    which[i] = (uint8_t)((WHICH >> i) & 1);
    key[i] = (uint8_t)in_range(0, NKEYS - 1);
    sz[i] = (uint8_t)in_range(0, 2);
  }
#ifdef NODRAIN
  int64_t rc = w_lruset_history_nodrain(op, which, key, sz, K, out);
#else
  int64_t rc = w_lruset_history(op, which, key, sz, K, out, drain, DRAIN_MAX);
#endif
  OBS(rc);
  ASSERT(rc == 0, "no exception escapes a history; after the drain both instances are empty (size 0, count 0)");

  Ref r[2];
  ref_init(&r[0]); ref_init(&r[1]);
  for (int i = 0; i < K; i++) {
    int w = which[i] & 1;
    int64_t exp = ref_set_step(&r[w], &r[1 - w], op[i], key[i], sz[i]);
#ifdef NOTHROW
    ASSUME(exp != -1); /* peek/evict/at/item_size that throw out_of_range */
    ASSUME(!((op[i] == S_TOUCH || op[i] == S_TOUCH_SIZE || op[i] == S_TOUCH_NEG || op[i] == S_CHANGE_SIZE) && exp == 0)); /* touch/change_size of a missing key throw and catch internally */
#endif
    OBS(out[5 * i]); OBS(out[5 * i + 1]); OBS(out[5 * i + 2]); OBS(out[5 * i + 3]); OBS(out[5 * i + 4]);
    ASSERT(out[5 * i] == exp, "return value of the operation equals the reference (new/existing flag, LRU entry, out_of_range)");
    ASSERT(out[5 * i + 1] == ref_total(&r[0]), "size() of instance 0 is the sum of the current entries' sizes");
    ASSERT(out[5 * i + 2] == r[0].n, "count() of instance 0 is the number of keys");
    ASSERT(out[5 * i + 3] == ref_total(&r[1]), "size() of instance 1 is the sum of the current entries' sizes");
    ASSERT(out[5 * i + 4] == r[1].n, "count() of instance 1 is the number of keys");
  }
#ifndef NODRAIN
  for (int w = 0; w < 2; w++) {
    for (int j = 0; j <= DRAIN_MAX; j++) {
      int64_t d = drain[w * (DRAIN_MAX + 1) + j];
      OBS(d);
      if (j < r[w].n) {
        int p = r[w].n - 1 - j;
        ASSERT(d == ENC_KS(r[w].key[p], r[w].size[p]), "final drain: evict_object returns the entries in least-recently-used order");
      } else if (j == r[w].n) {
        ASSERT(d == -1, "final drain: evict_object on the emptied instance throws out_of_range");
      }
    }
  }
#endif
}
