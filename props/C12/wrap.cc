// C12 wrappers: LRUSet<int> / LRUMap<int,int> driven by an operation script supplied by the harness.
// The wrapper only adapts types: it executes op[i] on instance which[i] and reports every return value, size() and
// count() of both instances after each step, then drains both instances by evict_object. The reference recency list
// lives in the harness. std::unordered_map is the fixed-capacity shim for the solver build and the real libstdc++
// container for the native "real" build.
#include "wrap.hh"
#include "LRUSet.hh"
#include "LRUMap.hh"
using namespace phosg;

// observation layout per step
#define OBS_PER_STEP 5
// encoding of (key,size) / (key,value,size) results; keys < 4, sizes < 4, values < 16
#define ENC_KS(k, s) (1000 + (int64_t)(k) * 16 + (int64_t)(s))
#define ENC_KVS(k, v, s) (10000 + (int64_t)(k) * 256 + (int64_t)(v) * 16 + (int64_t)(s))

enum SetOp { S_INSERT = 0, S_EMPLACE, S_ERASE, S_TOUCH, S_TOUCH_SIZE, S_CHANGE_SIZE, S_PEEK, S_EVICT, S_CLEAR, S_SWAP, S_TOUCH_NEG, S_NOPS };

// Every LRUSet member has exactly one call site per step (the three touch flavours differ only in the argument).
static int64_t set_step(LRUSet<int>& t, LRUSet<int>& o, uint8_t op, int k, size_t sz) {
  switch (op) {
    case S_INSERT: return t.insert(k, sz);
    case S_EMPLACE: return t.emplace(std::move(k), sz);
    case S_ERASE: return t.erase(k);
    case S_TOUCH:
    case S_TOUCH_SIZE:
    case S_TOUCH_NEG: {
      // touch(k) == touch(k, -1); any negative new_size means "keep the size"
      ssize_t ns = (op == S_TOUCH_SIZE) ? static_cast<ssize_t>(sz) : (op == S_TOUCH) ? -1 : -2 - static_cast<ssize_t>(sz);
      return t.touch(k, ns);
    }
    case S_CHANGE_SIZE: return t.change_size(k, sz);
    case S_PEEK:
      try {
        auto p = t.peek();
        return ENC_KS(p.first, p.second);
      } catch (const std::out_of_range&) {
        return W_OUT_OF_RANGE;
      }
    case S_EVICT:
      try {
        auto p = t.evict_object();
        return ENC_KS(p.first, p.second);
      } catch (const std::out_of_range&) {
        return W_OUT_OF_RANGE;
      }
    case S_CLEAR: t.clear(); return 0;
    case S_SWAP: t.swap(o); return 0;
    default: return -50;
  }
}

// out: n * OBS_PER_STEP values; drain: 2 * (DRAIN_MAX + 1) values (instance 0 then instance 1, each terminated by the
// code of the exception that ended the drain)
WEXPORT int64_t w_lruset_history(const uint8_t* op, const uint8_t* which, const uint8_t* key, const uint8_t* sz, size_t n,
    int64_t* out, int64_t* drain, size_t drain_max) {
  try {
    LRUSet<int> s0, s1;
    for (size_t i = 0; i < n; i++) {
      out[OBS_PER_STEP * i + 0] = (which[i] & 1) ? set_step(s1, s0, op[i], key[i], sz[i]) : set_step(s0, s1, op[i], key[i], sz[i]);
      out[OBS_PER_STEP * i + 1] = static_cast<int64_t>(s0.size());
      out[OBS_PER_STEP * i + 2] = static_cast<int64_t>(s0.count());
      out[OBS_PER_STEP * i + 3] = static_cast<int64_t>(s1.size());
      out[OBS_PER_STEP * i + 4] = static_cast<int64_t>(s1.count());
    }
    for (size_t w = 0; w < 2; w++) {
      LRUSet<int>& d = w ? s1 : s0;
      for (size_t j = 0; j <= drain_max; j++) {
        int64_t r;
        try {
          auto p = d.evict_object();
          r = ENC_KS(p.first, p.second);
        } catch (const std::out_of_range&) {
          r = W_OUT_OF_RANGE;
        }
        drain[w * (drain_max + 1) + j] = r;
        if (r < 0) {
          break;
        }
      }
    }
    return static_cast<int64_t>(s0.size() + s0.count() + s1.size() + s1.count());
  }
  W_CATCH_ALL
}

// Same script, but the instances are destroyed while still populated (no drain): heap hygiene of destruction.
WEXPORT int64_t w_lruset_history_nodrain(const uint8_t* op, const uint8_t* which, const uint8_t* key, const uint8_t* sz, size_t n,
    int64_t* out) {
  try {
    LRUSet<int> s0, s1;
    for (size_t i = 0; i < n; i++) {
      out[OBS_PER_STEP * i + 0] = (which[i] & 1) ? set_step(s1, s0, op[i], key[i], sz[i]) : set_step(s0, s1, op[i], key[i], sz[i]);
      out[OBS_PER_STEP * i + 1] = static_cast<int64_t>(s0.size());
      out[OBS_PER_STEP * i + 2] = static_cast<int64_t>(s0.count());
      out[OBS_PER_STEP * i + 3] = static_cast<int64_t>(s1.size());
      out[OBS_PER_STEP * i + 4] = static_cast<int64_t>(s1.count());
    }
    return 0;
  }
  W_CATCH_ALL
}

// ---- inductive step: an arbitrary well-formed state, one operation, full observation of the resulting state ----
// The harness describes the pre-state of both instances as recency lists (keys/sizes, most recent first) plus the order
// in which the entries entered the hash map; the state is assembled directly (map nodes + prev/next/key links + head,
// tail, total_size), not through the public API. After one public operation the complete representation is reported:
// the list walked forwards from head and backwards from tail, each node checked to be the map's node for its key.
struct SetAccess : public LRUSet<int> {
  bool build(const uint8_t* keys, const uint8_t* sizes, const uint8_t* ins, size_t m) {
    Item* node[4] = {nullptr, nullptr, nullptr, nullptr};
    size_t total = 0;
    for (size_t r = 0; r < m; r++) {
      size_t j = ins[r];
      auto res = this->items.emplace(std::piecewise_construct, std::forward_as_tuple(static_cast<int>(keys[j])),
          std::forward_as_tuple(static_cast<size_t>(sizes[j])));
      if (!res.second) {
        return false;  // keys not distinct: the harness excludes this
      }
      node[j] = &res.first->second;
      node[j]->key = &res.first->first;
      total += sizes[j];
    }
    for (size_t j = 0; j < m; j++) {
      node[j]->prev = (j > 0) ? node[j - 1] : nullptr;
      node[j]->next = (j + 1 < m) ? node[j + 1] : nullptr;
    }
    this->head = m ? node[0] : nullptr;
    this->tail = m ? node[m - 1] : nullptr;
    this->total_size = total;
    return true;
  }
  // out[0] = number of nodes reached from head via next (W_CAPACITY if more than max), out[1..] their (key,size);
  // a node that is not the map's node for its key, or whose key pointer is not the map's key, is reported as -60
  void walk(int64_t* out, size_t max, bool forward) {
    Item* p = forward ? this->head : this->tail;
    size_t n = 0;
    for (; n <= max && p; n++) {
      auto it = this->items.find(*p->key);
      bool ok = (it != this->items.end()) && (&it->second == p) && (&it->first == p->key);
      out[1 + n] = ok ? ENC_KS(*p->key, p->size) : -60;
      p = forward ? p->next : p->prev;
    }
    out[0] = p ? W_CAPACITY : static_cast<int64_t>(n);
  }
};

#define STEP_WALK 6 /* count + up to 5 entries */
#define STEP_NOUT (OBS_PER_STEP + 4 * STEP_WALK)
// st: per instance keys[4], sizes[4], ins[4]
WEXPORT int64_t w_lruset_step(const uint8_t* st, size_t m0, size_t m1, uint8_t op, uint8_t key, uint8_t sz, int64_t* out) {
  try {
    SetAccess s0, s1;
    if (!s0.build(st, st + 4, st + 8, m0) || !s1.build(st + 12, st + 16, st + 20, m1)) {
      return -51;
    }
    out[0] = set_step(s0, s1, op, key, sz);
    out[1] = static_cast<int64_t>(s0.size());
    out[2] = static_cast<int64_t>(s0.count());
    out[3] = static_cast<int64_t>(s1.size());
    out[4] = static_cast<int64_t>(s1.count());
    s0.walk(out + OBS_PER_STEP, 4, true);
    s0.walk(out + OBS_PER_STEP + STEP_WALK, 4, false);
    s1.walk(out + OBS_PER_STEP + 2 * STEP_WALK, 4, true);
    s1.walk(out + OBS_PER_STEP + 3 * STEP_WALK, 4, false);
    return 0;
  }
  W_CATCH_ALL
}

enum MapOp { M_INSERT = 0, M_EMPLACE, M_ERASE, M_AT, M_ITEM_SIZE, M_CHANGE_SIZE, M_CHANGE_SIZE_NOTOUCH, M_TOUCH, M_TOUCH_SIZE, M_TOUCH_NEG,
  M_EVICT, M_CLEAR, M_SWAP, M_EMPTY, M_NOPS };

// LRUMap::insert(const KeyT&, const ValueT&, size_t) and LRUMap::at(const KeyT&) const are not instantiated: neither
// compiles when instantiated (see NOTES.md). Every other member has exactly one call site per step.
static int64_t map_step(LRUMap<int, int>& t, LRUMap<int, int>& o, uint8_t op, int k, int v, size_t sz) {
  switch (op) {
    case M_INSERT: return t.insert(std::move(k), std::move(v), sz);
    case M_EMPLACE: return t.emplace(std::move(k), std::move(v), sz);
    case M_ERASE: return t.erase(k);
    case M_AT:
      try {
        return 100 + t.at(k);
      } catch (const std::out_of_range&) {
        return W_OUT_OF_RANGE;
      }
    case M_ITEM_SIZE:
      try {
        return 100 + static_cast<int64_t>(t.item_size(k));
      } catch (const std::out_of_range&) {
        return W_OUT_OF_RANGE;
      }
    case M_CHANGE_SIZE:
    case M_CHANGE_SIZE_NOTOUCH: return t.change_size(k, sz, op == M_CHANGE_SIZE);
    case M_TOUCH:
    case M_TOUCH_SIZE:
    case M_TOUCH_NEG: {
      ssize_t ns = (op == M_TOUCH_SIZE) ? static_cast<ssize_t>(sz) : (op == M_TOUCH) ? -1 : -2 - static_cast<ssize_t>(sz);
      return t.touch(k, ns);
    }
    case M_EVICT:
      try {
        auto e = t.evict_object();
        return ENC_KVS(e.key, e.value, e.size);
      } catch (const std::out_of_range&) {
        return W_OUT_OF_RANGE;
      }
    case M_CLEAR: t.clear(); return 0;
    case M_SWAP: t.swap(o); return 0;
    case M_EMPTY: return t.empty();
    default: return -50;
  }
}

#define MAP_OBSERVE(i)                                         \
  out[OBS_PER_STEP * (i) + 1] = static_cast<int64_t>(s0.size());  \
  out[OBS_PER_STEP * (i) + 2] = static_cast<int64_t>(s0.count()); \
  out[OBS_PER_STEP * (i) + 3] = static_cast<int64_t>(s1.size());  \
  out[OBS_PER_STEP * (i) + 4] = static_cast<int64_t>(s1.count());

WEXPORT int64_t w_lrumap_history(const uint8_t* op, const uint8_t* which, const uint8_t* key, const uint8_t* val, const uint8_t* sz,
    size_t n, int64_t* out, int64_t* drain, size_t drain_max) {
  try {
    LRUMap<int, int> s0, s1;
    for (size_t i = 0; i < n; i++) {
      out[OBS_PER_STEP * i + 0] = (which[i] & 1) ? map_step(s1, s0, op[i], key[i], val[i], sz[i]) : map_step(s0, s1, op[i], key[i], val[i], sz[i]);
      MAP_OBSERVE(i)
    }
    for (size_t w = 0; w < 2; w++) {
      LRUMap<int, int>& d = w ? s1 : s0;
      for (size_t j = 0; j <= drain_max; j++) {
        int64_t r;
        try {
          auto e = d.evict_object();
          r = ENC_KVS(e.key, e.value, e.size);
        } catch (const std::out_of_range&) {
          r = W_OUT_OF_RANGE;
        }
        drain[w * (drain_max + 1) + j] = r;
        if (r < 0) {
          break;
        }
      }
    }
    return static_cast<int64_t>(s0.size() + s0.count() + s1.size() + s1.count());
  }
  W_CATCH_ALL
}

WEXPORT int64_t w_lrumap_history_nodrain(const uint8_t* op, const uint8_t* which, const uint8_t* key, const uint8_t* val,
    const uint8_t* sz, size_t n, int64_t* out) {
  try {
    LRUMap<int, int> s0, s1;
    for (size_t i = 0; i < n; i++) {
      out[OBS_PER_STEP * i + 0] = (which[i] & 1) ? map_step(s1, s0, op[i], key[i], val[i], sz[i]) : map_step(s0, s1, op[i], key[i], val[i], sz[i]);
      MAP_OBSERVE(i)
    }
    return 0;
  }
  W_CATCH_ALL
}

struct MapAccess : public LRUMap<int, int> {
  bool build(const uint8_t* keys, const uint8_t* sizes, const uint8_t* ins, const uint8_t* vals, size_t m) {
    Item* node[4] = {nullptr, nullptr, nullptr, nullptr};
    size_t total = 0;
    for (size_t r = 0; r < m; r++) {
      size_t j = ins[r];
      auto res = this->items.emplace(std::piecewise_construct, std::forward_as_tuple(static_cast<int>(keys[j])),
          std::forward_as_tuple(static_cast<int>(vals[j]), static_cast<size_t>(sizes[j])));
      if (!res.second) {
        return false;  // keys not distinct: the harness excludes this
      }
      node[j] = &res.first->second;
      node[j]->key = &res.first->first;
      total += sizes[j];
    }
    for (size_t j = 0; j < m; j++) {
      node[j]->prev = (j > 0) ? node[j - 1] : nullptr;
      node[j]->next = (j + 1 < m) ? node[j + 1] : nullptr;
    }
    this->head = m ? node[0] : nullptr;
    this->tail = m ? node[m - 1] : nullptr;
    this->total_size = total;
    return true;
  }
  void walk(int64_t* out, size_t max, bool forward) {
    Item* p = forward ? this->head : this->tail;
    size_t n = 0;
    for (; n <= max && p; n++) {
      auto it = this->items.find(*p->key);
      bool ok = (it != this->items.end()) && (&it->second == p) && (&it->first == p->key);
      out[1 + n] = ok ? ENC_KVS(*p->key, p->value, p->size) : -60;
      p = forward ? p->next : p->prev;
    }
    out[0] = p ? W_CAPACITY : static_cast<int64_t>(n);
  }
};

// st: per instance keys[4], sizes[4], ins[4], vals[4]
WEXPORT int64_t w_lrumap_step(const uint8_t* st, size_t m0, size_t m1, uint8_t op, uint8_t key, uint8_t val, uint8_t sz, int64_t* out) {
  try {
    MapAccess s0, s1;
    if (!s0.build(st, st + 4, st + 8, st + 12, m0) || !s1.build(st + 16, st + 20, st + 24, st + 28, m1)) {
      return -51;
    }
    out[0] = map_step(s0, s1, op, key, val, sz);
    MAP_OBSERVE(0)
    s0.walk(out + OBS_PER_STEP, 4, true);
    s0.walk(out + OBS_PER_STEP + STEP_WALK, 4, false);
    s1.walk(out + OBS_PER_STEP + 2 * STEP_WALK, 4, true);
    s1.walk(out + OBS_PER_STEP + 3 * STEP_WALK, 4, false);
    return 0;
  }
  W_CATCH_ALL
}
