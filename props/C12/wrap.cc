// C12 wrappers: LRUSet<int> / LRUMap<int,int> driven by an operation script supplied by the harness.
// The wrapper only adapts types: it executes op[i] on instance which[i] and reports every return value, size() and
// count() of both instances after each step, then drains both instances by evict_object. The reference recency list
// lives in the harness. std::unordered_map is the fixed-capacity shim for the solver build and the real libstdc++
// container for the native "real" build.
#include "wrap.hh"
#include "LRUSet.hh"
#include "LRUMap.hh"
using namespace phosg;

// observation layout per step
#define OBS_PER_STEP 5
// encoding of (key,size) / (key,value,size) results; keys < 4, sizes < 4, values < 16
#define ENC_KS(k, s) (1000 + (int64_t)(k) * 16 + (int64_t)(s))
#define ENC_KVS(k, v, s) (10000 + (int64_t)(k) * 256 + (int64_t)(v) * 16 + (int64_t)(s))

enum SetOp { S_INSERT = 0, S_EMPLACE, S_ERASE, S_TOUCH, S_TOUCH_SIZE, S_CHANGE_SIZE, S_PEEK, S_EVICT, S_CLEAR, S_SWAP, S_TOUCH_NEG, S_NOPS };

// Every LRUSet member has exactly one call site per step (the three touch flavours differ only in the argument).
static int64_t set_step(LRUSet<int>& t, LRUSet<int>& o, uint8_t op, int k, size_t sz) {
  switch (op) {
    case S_INSERT: return t.insert(k, sz);
    case S_EMPLACE: return t.emplace(std::move(k), sz);
    case S_ERASE: return t.erase(k);
    case S_TOUCH:
    case S_TOUCH_SIZE:
    case S_TOUCH_NEG: {
      // touch(k) == touch(k, -1); any negative new_size means "keep the size"
      ssize_t ns = (op == S_TOUCH_SIZE) ? static_cast<ssize_t>(sz) : (op == S_TOUCH) ? -1 : -2 - static_cast<ssize_t>(sz);
      return t.touch(k, ns);
    }
    case S_CHANGE_SIZE: return t.change_size(k, sz);
    case S_PEEK:
      try {
        auto p = t.peek();
        return ENC_KS(p.first, p.second);
      } catch (const std::out_of_range&) {
        return W_OUT_OF_RANGE;
      }
    case S_EVICT:
      try {
        auto p = t.evict_object();
        return ENC_KS(p.first, p.second);
      } catch (const std::out_of_range&) {
        return W_OUT_OF_RANGE;
      }
    case S_CLEAR: t.clear(); return 0;
    case S_SWAP: t.swap(o); return 0;
    default: return -50;
  }
}

// out: n * OBS_PER_STEP values; drain: 2 * (DRAIN_MAX + 1) values (instance 0 then instance 1, each terminated by the
// code of the exception that ended the drain)
WEXPORT int64_t w_lruset_history(const uint8_t* op, const uint8_t* which, const uint8_t* key, const uint8_t* sz, size_t n,
    int64_t* out, int64_t* drain, size_t drain_max) {
  try {
    LRUSet<int> s0, s1;
    for (size_t i = 0; i < n; i++) {
      out[OBS_PER_STEP * i + 0] = (which[i] & 1) ? set_step(s1, s0, op[i], key[i], sz[i]) : set_step(s0, s1, op[i], key[i], sz[i]);
      out[OBS_PER_STEP * i + 1] = static_cast<int64_t>(s0.size());
      out[OBS_PER_STEP * i + 2] = static_cast<int64_t>(s0.count());
      out[OBS_PER_STEP * i + 3] = static_cast<int64_t>(s1.size());
      out[OBS_PER_STEP * i + 4] = static_cast<int64_t>(s1.count());
    }
    for (size_t w = 0; w < 2; w++) {
      LRUSet<int>& d = w ? s1 : s0;
      for (size_t j = 0; j <= drain_max; j++) {
        int64_t r;
        try {
          auto p = d.evict_object();
          r = ENC_KS(p.first, p.second);
        } catch (const std::out_of_range&) {
          r = W_OUT_OF_RANGE;
        }
        drain[w * (drain_max + 1) + j] = r;
        if (r < 0) {
          break;
        }
      }
    }
    return static_cast<int64_t>(s0.size() + s0.count() + s1.size() + s1.count());
  }
  W_CATCH_ALL
}

// Same script, but the instances are destroyed while still populated (no drain): heap hygiene of destruction.
WEXPORT int64_t w_lruset_history_nodrain(const uint8_t* op, const uint8_t* which, const uint8_t* key, const uint8_t* sz, size_t n,
    int64_t* out) {
  try {
    LRUSet<int> s0, s1;
    for (size_t i = 0; i < n; i++) {
      out[OBS_PER_STEP * i + 0] = (which[i] & 1) ? set_step(s1, s0, op[i], key[i], sz[i]) : set_step(s0, s1, op[i], key[i], sz[i]);
      out[OBS_PER_STEP * i + 1] = static_cast<int64_t>(s0.size());
      out[OBS_PER_STEP * i + 2] = static_cast<int64_t>(s0.count());
      out[OBS_PER_STEP * i + 3] = static_cast<int64_t>(s1.size());
      out[OBS_PER_STEP * i + 4] = static_cast<int64_t>(s1.count());
    }
    return 0;
  }
  W_CATCH_ALL
}

enum MapOp { M_INSERT = 0, M_EMPLACE, M_ERASE, M_AT, M_ITEM_SIZE, M_CHANGE_SIZE, M_CHANGE_SIZE_NOTOUCH, M_TOUCH, M_TOUCH_SIZE,
  M_EVICT, M_CLEAR, M_SWAP, M_EMPTY, M_NOPS };

// LRUMap::insert(const KeyT&, const ValueT&, size_t) and LRUMap::at(const KeyT&) const are not instantiated: neither
// compiles when instantiated (see NOTES.md).
static int64_t map_step(LRUMap<int, int>& t, LRUMap<int, int>& o, uint8_t op, int k, int v, size_t sz) {
  switch (op) {
    case M_INSERT: return t.insert(std::move(k), std::move(v), sz);
    case M_EMPLACE: return t.emplace(std::move(k), std::move(v), sz);
    case M_ERASE: return t.erase(k);
    case M_AT:
      try {
        return 100 + t.at(k);
      } catch (const std::out_of_range&) {
        return W_OUT_OF_RANGE;
      }
    case M_ITEM_SIZE:
      try {
        return 100 + static_cast<int64_t>(t.item_size(k));
      } catch (const std::out_of_range&) {
        return W_OUT_OF_RANGE;
      }
    case M_CHANGE_SIZE: return t.change_size(k, sz);
    case M_CHANGE_SIZE_NOTOUCH: return t.change_size(k, sz, false);
    case M_TOUCH: return t.touch(k);
    case M_TOUCH_SIZE: return t.touch(k, static_cast<ssize_t>(sz));
    case M_EVICT:
      try {
        auto e = t.evict_object();
        return ENC_KVS(e.key, e.value, e.size);
      } catch (const std::out_of_range&) {
        return W_OUT_OF_RANGE;
      }
    case M_CLEAR: t.clear(); return 0;
    case M_SWAP: t.swap(o); return 0;
    case M_EMPTY: return t.empty();
    default: return -50;
  }
}

WEXPORT int64_t w_lrumap_history(const uint8_t* op, const uint8_t* which, const uint8_t* key, const uint8_t* val, const uint8_t* sz,
    size_t n, int64_t* out, int64_t* drain, size_t drain_max) {
  try {
    LRUMap<int, int> s[2];
    for (size_t i = 0; i < n; i++) {
      size_t w = which[i] & 1;
      out[OBS_PER_STEP * i + 0] = map_step(s[w], s[1 - w], op[i], key[i], val[i], sz[i]);
      out[OBS_PER_STEP * i + 1] = static_cast<int64_t>(s[0].size());
      out[OBS_PER_STEP * i + 2] = static_cast<int64_t>(s[0].count());
      out[OBS_PER_STEP * i + 3] = static_cast<int64_t>(s[1].size());
      out[OBS_PER_STEP * i + 4] = static_cast<int64_t>(s[1].count());
    }
    for (size_t w = 0; w < 2; w++) {
      for (size_t j = 0; j <= drain_max; j++) {
        int64_t r;
        try {
          auto e = s[w].evict_object();
          r = ENC_KVS(e.key, e.value, e.size);
        } catch (const std::out_of_range&) {
          r = W_OUT_OF_RANGE;
        }
        drain[w * (drain_max + 1) + j] = r;
        if (r < 0) {
          break;
        }
      }
    }
    return static_cast<int64_t>(s[0].size() + s[0].count() + s[1].size() + s[1].count());
  }
  W_CATCH_ALL
}

WEXPORT int64_t w_lrumap_history_nodrain(const uint8_t* op, const uint8_t* which, const uint8_t* key, const uint8_t* val,
    const uint8_t* sz, size_t n, int64_t* out) {
  try {
    LRUMap<int, int> s[2];
    for (size_t i = 0; i < n; i++) {
      size_t w = which[i] & 1;
      out[OBS_PER_STEP * i + 0] = map_step(s[w], s[1 - w], op[i], key[i], val[i], sz[i]);
      out[OBS_PER_STEP * i + 1] = static_cast<int64_t>(s[0].size());
      out[OBS_PER_STEP * i + 2] = static_cast<int64_t>(s[0].count());
      out[OBS_PER_STEP * i + 3] = static_cast<int64_t>(s[1].size());
      out[OBS_PER_STEP * i + 4] = static_cast<int64_t>(s[1].count());
    }
    return 0;
  }
  W_CATCH_ALL
}
