#!/bin/bash
# usage: engine/seedtest.sh <pid> <seed_dir (patch.diff, demo.cc)> <worktree with _b build dir> [tier]
# Confirms a seeded change (builds, passes ctest, demo fails with / passes without) and runs the property's check on it.
set -u
PID=$1; SD=$2; WT=$3; TIER=${4:-quick}
cd "$WT" || exit 9
git checkout -q -- src
echo "== clean: build + demo"
cmake --build _b -j6 >/dev/null 2>&1 || { echo "clean build failed"; exit 9; }
g++ -std=c++20 -O1 -DNO_PROBE -I"$WT/src" "$SD/demo.cc" _b/libphosg.a -lz -lpthread -ldl -o /tmp/seed_demo_clean_$PID 2>/dev/null || { echo "demo build failed (clean)"; exit 9; }
timeout 300 /tmp/seed_demo_clean_$PID >/dev/null 2>&1; DC=$?
echo "demo on clean tree: exit $DC"
git apply "$SD/patch.diff" || { echo "patch does not apply"; exit 9; }
echo "== mutated: build + ctest + demo"
cmake --build _b -j6 >/dev/null 2>&1 || { echo "mutated build failed"; git checkout -q -- src; exit 9; }
CT=$(ctest --test-dir _b -j6 --timeout 900 2>&1 | grep "tests passed" )
echo "ctest: $CT"
g++ -std=c++20 -O1 -DNO_PROBE -I"$WT/src" "$SD/demo.cc" _b/libphosg.a -lz -lpthread -ldl -o /tmp/seed_demo_mut_$PID 2>/dev/null
timeout 300 /tmp/seed_demo_mut_$PID >/dev/null 2>&1; DM=$?
echo "demo on mutated tree: exit $DM"
echo "== check $PID ($TIER) on mutated tree"
cd /verif && VERIF_REPO="$WT" VERIF_JOBS=8 python3 engine/run.py "$PID" --tier "$TIER" 2>&1 | grep -v "^  \[" | tail -6
RC=${PIPESTATUS[0]}
echo "check exit: $RC"
cd "$WT" && git checkout -q -- src
echo "SUMMARY pid=$PID seed=$SD demo_clean=$DC demo_mut=$DM ctest='$CT' check_rc=$RC"
