#!/usr/bin/env python3
"""Rewrite the block between <!-- SEEDTABLE --> markers in DESIGN.md from seeded/*/meta.json."""
import glob, json, os, re
V = os.path.dirname(os.path.dirname(os.path.abspath(__file__)))
rows = []
for m in sorted(glob.glob(os.path.join(V, 'seeded', '*', 'meta.json'))):
    d = json.load(open(m))
    name = os.path.basename(os.path.dirname(m))
    rows.append('| `%s` | %s | %s | %s |' % (name, d.get('needs_to_manifest', '').replace('|', '/')[:110], d.get('check_result', ''),
                                          d.get('detected_by', '').replace('|', '/').replace('\n', ' ')[:230]))
caught = sum(1 for r in rows if '| yes' in r)
txt = ('<!-- SEEDTABLE -->\n%d seeded changes, %d caught (a change counts as caught only when the check exits 1 with a VIOLATION line whose replay reproduces '
       'against the real build; "inconclusive" = exit 2, not a detection).\n\n| seed | needs | caught | by which query (or why not) |\n|---|---|---|---|\n' % (len(rows), caught)
       + '\n'.join(rows) + '\n<!-- /SEEDTABLE -->')
p = os.path.join(V, 'DESIGN.md')
s = open(p).read()
if '<!-- SEEDTABLE -->' in s:
    s = re.sub(r'<!-- SEEDTABLE -->.*?<!-- /SEEDTABLE -->', lambda _: txt, s, flags=re.S)
else:
    s += ('\n## 6. Seeded changes: which checks catch which\nEvery change below was written by a fresh sub-agent that saw only the property text and a scratch '
          'worktree of /repo (nothing from /verif); each was confirmed by `engine/seedtest.sh` (compiles, the 14 tests pass, its demonstration fails with the '
          'change and passes without it) and is kept under `seeded/<id>/` (patch.diff, demo.cc, README.txt, meta.json). "yes (after strengthening)" = missed or '
          'inconclusive when first run, caught after the check was extended (what was added is in the last column and in the property\'s NOTES.md).\n\n' + txt + '\n')
open(p, 'w').write(s)
print(len(rows), 'seeds', caught, 'caught')
