#!/usr/bin/env python3
"""LLVM-14 textual IR -> C translator (prototype) for CBMC.

Scope: the subset clang-14 -O1 emits for phosg kernels. Typed pointers.
Exceptions are lowered to a global flag + explicit propagation.
"""
import re, sys, hashlib, collections

# ----------------------------------------------------------------- tokenizer
TOK = re.compile(r'''
  \s+ |
  (?P<str>c"(?:[^"\\]|\\[0-9A-Fa-f]{2}|\\\\)*") |
  (?P<qname>[%@]"(?:[^"\\]|\\.)*") |
  (?P<qstr>"(?:[^"\\]|\\.)*") |
  (?P<name>[%@][-A-Za-z$._0-9]+) |
  (?P<meta>![-A-Za-z$._0-9]*(?:\([^)]*\))?) |
  (?P<attrgrp>\#[0-9]+) |
  (?P<num>-?[0-9]+\.[0-9]*(?:e[+-]?[0-9]+)?|0x[KLMHR]?[0-9A-Fa-f]+|-?[0-9]+) |
  (?P<word>[A-Za-z_][A-Za-z0-9_.]*) |
  (?P<dots>\.\.\.) |
  (?P<p>[()\[\]{}<>,=*:])
''', re.X)


def tokenize(s):
    out = []
    pos = 0
    n = len(s)
    while pos < n:
        if s[pos] == ';':
            break
        m = TOK.match(s, pos)
        if not m:
            raise SyntaxError('tok: %r' % s[pos:pos + 40])
        pos = m.end()
        k = m.lastgroup
        if k is None:
            continue
        out.append((k, m.group(k)))
    return out


class P:
    """token stream"""

    def __init__(self, toks):
        self.t = toks
        self.i = 0

    def peek(self, k=0):
        return self.t[self.i + k] if self.i + k < len(self.t) else (None, None)

    def next(self):
        x = self.t[self.i]
        self.i += 1
        return x

    def accept(self, v):
        if self.peek()[1] == v:
            self.i += 1
            return True
        return False

    def expect(self, v):
        x = self.next()
        if x[1] != v:
            raise SyntaxError('expected %r got %r at %r' % (v, x, self.t[max(0, self.i - 6):self.i + 4]))

    def done(self):
        return self.i >= len(self.t)


# ----------------------------------------------------------------- types
class Ty:
    pass


class IntT(Ty):
    def __init__(s, n): s.n = n
    def key(s): return 'i%d' % s.n


class FloatT(Ty):
    def __init__(s, k): s.k = k
    def key(s): return s.k


class VoidT(Ty):
    def key(s): return 'void'


class PtrT(Ty):
    def __init__(s, to): s.to = to
    def key(s): return 'p(' + s.to.key() + ')'


class ArrT(Ty):
    def __init__(s, n, el): s.n = n; s.el = el
    def key(s): return 'a%d(%s)' % (s.n, s.el.key())


class VecT(Ty):
    def __init__(s, n, el): s.n = n; s.el = el
    def key(s): return 'v%d(%s)' % (s.n, s.el.key())


class StructT(Ty):
    def __init__(s, els, packed): s.els = els; s.packed = packed
    def key(s): return ('ps{' if s.packed else 's{') + ','.join(e.key() for e in s.els) + '}'


class NamedT(Ty):
    def __init__(s, name): s.name = name
    def key(s): return 'n:' + s.name


class FuncT(Ty):
    def __init__(s, ret, args, va): s.ret = ret; s.args = args; s.va = va
    def key(s): return 'f(%s;%s%s)' % (s.ret.key(), ','.join(a.key() for a in s.args), ',...' if s.va else '')


class LabelT(Ty):
    def key(s): return 'label'


class MetaT(Ty):
    def key(s): return 'metadata'


PARAM_ATTRS = {'noalias', 'nocapture', 'noundef', 'readonly', 'writeonly', 'nonnull', 'returned', 'signext',
               'zeroext', 'inreg', 'nest', 'immarg', 'readnone', 'nofree', 'swiftself', 'noalias', 'inalloca',
               'allocalign', 'allocptr'}


def parse_type(p):
    k, v = p.next()
    if k == 'word':
        if re.fullmatch(r'i[0-9]+', v):
            t = IntT(int(v[1:]))
        elif v in ('float', 'double', 'half', 'x86_fp80', 'fp128'):
            t = FloatT(v)
        elif v == 'void':
            t = VoidT()
        elif v == 'label':
            t = LabelT()
        elif v == 'metadata':
            t = MetaT()
        elif v == 'opaque':
            t = StructT([], False); t.opaque = True
        elif v == 'ptr':
            t = PtrT(IntT(8))
        else:
            raise SyntaxError('type word %r' % v)
    elif k in ('name', 'qname') and v[0] == '%':
        t = NamedT(v)
    elif v == '[':
        n = int(p.next()[1]); p.expect('x'); el = parse_type(p); p.expect(']')
        t = ArrT(n, el)
    elif v == '<':
        if p.peek()[1] == '{':
            p.next(); els = []
            if not p.accept('}'):
                while True:
                    els.append(parse_type(p))
                    if p.accept('}'): break
                    p.expect(',')
            p.expect('>')
            t = StructT(els, True)
        else:
            n = int(p.next()[1]); p.expect('x'); el = parse_type(p); p.expect('>')
            t = VecT(n, el)
    elif v == '{':
        els = []
        if not p.accept('}'):
            while True:
                els.append(parse_type(p))
                if p.accept('}'): break
                p.expect(',')
        t = StructT(els, False)
    else:
        raise SyntaxError('type %r %r' % (k, v))
    # suffixes
    while True:
        if p.peek()[1] == '*':
            p.next(); t = PtrT(t)
        elif p.peek()[1] == '(':
            p.next(); args = []; va = False
            if not p.accept(')'):
                while True:
                    if p.peek()[0] == 'dots':
                        p.next(); va = True
                    else:
                        args.append(parse_type(p))
                    if p.accept(')'): break
                    p.expect(',')
            t = FuncT(t, args, va)
        else:
            break
    return t


# ----------------------------------------------------------------- values
class Val:
    def __init__(s, kind, ty, **kw):
        s.kind = kind; s.ty = ty; s.__dict__.update(kw)


CONST_OPS = {'getelementptr', 'bitcast', 'ptrtoint', 'inttoptr', 'trunc', 'zext', 'sext', 'add', 'sub', 'mul',
             'and', 'or', 'xor', 'shl', 'lshr', 'ashr', 'select', 'icmp', 'addrspacecast'}


def skip_attrs(p):
    """skip parameter attributes"""
    while True:
        k, v = p.peek()
        if k == 'word' and (v in PARAM_ATTRS):
            p.next()
        elif k == 'word' and v in ('align', 'dereferenceable', 'dereferenceable_or_null'):
            p.next()
            if p.accept('('):
                p.next(); p.expect(')')
            else:
                p.next()
        elif k == 'word' and v in ('sret', 'byval', 'byref', 'preallocated', 'elementtype'):
            p.next(); p.expect('('); parse_type(p); p.expect(')')
        else:
            break


def parse_value(p, ty):
    k, v = p.next()
    if k in ('name', 'qname'):
        return Val('local' if v[0] == '%' else 'global', ty, name=v)
    if k == 'num':
        return Val('num', ty, text=v)
    if k == 'str':
        return Val('cstr', ty, text=v)
    if k == 'meta':
        return Val('meta', ty, text=v)
    if k == 'word':
        if v in ('null', 'undef', 'poison', 'zeroinitializer', 'true', 'false', 'none'):
            return Val(v, ty)
        if v in CONST_OPS:
            return parse_constexpr(p, v, ty)
        if v == 'blockaddress' or v == 'dso_local_equivalent':
            raise SyntaxError('unsupported const ' + v)
    if v == '[':
        els = []
        if not p.accept(']'):
            while True:
                t = parse_type(p); els.append(parse_value(p, t))
                if p.accept(']'): break
                p.expect(',')
        return Val('carr', ty, els=els)
    if v == '{':
        els = []
        if not p.accept('}'):
            while True:
                t = parse_type(p); els.append(parse_value(p, t))
                if p.accept('}'): break
                p.expect(',')
        return Val('cstruct', ty, els=els)
    if v == '<':
        if p.accept('{'):
            els = []
            if not p.accept('}'):
                while True:
                    t = parse_type(p); els.append(parse_value(p, t))
                    if p.accept('}'): break
                    p.expect(',')
            p.expect('>')
            return Val('cstruct', ty, els=els)
        els = []
        while True:
            t = parse_type(p); els.append(parse_value(p, t))
            if p.accept('>'): break
            p.expect(',')
        return Val('cvec', ty, els=els)
    raise SyntaxError('value %r %r' % (k, v))


def parse_constexpr(p, op, ty):
    flags = []
    while p.peek()[0] == 'word' and p.peek()[1] in ('inbounds', 'nuw', 'nsw', 'exact', 'inrange'):
        flags.append(p.next()[1])
    pred = None
    if op == 'icmp':
        pred = p.next()[1]
    p.expect('(')
    if op == 'getelementptr':
        base_ty = parse_type(p); p.expect(',')
        ops = []
        while True:
            p.accept('inrange')
            t = parse_type(p); ops.append(parse_value(p, t))
            if p.accept(')'): break
            p.expect(',')
        return Val('cexpr', ty, op=op, base_ty=base_ty, ops=ops)
    if op in ('bitcast', 'ptrtoint', 'inttoptr', 'trunc', 'zext', 'sext', 'addrspacecast'):
        t = parse_type(p); a = parse_value(p, t); p.expect('to'); to = parse_type(p); p.expect(')')
        return Val('cexpr', to, op=op, ops=[a])
    ops = []
    while True:
        t = parse_type(p); ops.append(parse_value(p, t))
        if p.accept(')'): break
        p.expect(',')
    rty = ops[0].ty if op != 'icmp' else IntT(1)
    if op == 'select':
        rty = ops[1].ty
    return Val('cexpr', rty, op=op, ops=ops, pred=pred)


# ----------------------------------------------------------------- module
class Func:
    pass


class Module:
    def __init__(self):
        self.named = collections.OrderedDict()
        self.globals = collections.OrderedDict()
        self.funcs = collections.OrderedDict()
        self.attrs = {}


LINKAGE = {'private', 'internal', 'available_externally', 'linkonce', 'weak', 'common', 'appending', 'extern_weak',
           'linkonce_odr', 'weak_odr', 'external', 'dso_local', 'dso_preemptable', 'default', 'hidden', 'protected',
           'unnamed_addr', 'local_unnamed_addr', 'thread_local', 'externally_initialized', 'dllimport', 'dllexport'}


def parse_module(text):
    m = Module()
    lines = text.split('\n')
    i = 0
    while i < len(lines):
        ln = lines[i]
        i += 1
        if not ln or ln[0] in ';!' or ln.startswith('source_filename') or ln.startswith('target '):
            continue
        if ln.startswith('attributes #'):
            mm = re.match(r'attributes (#\d+) = \{(.*)\}', ln)
            m.attrs[mm.group(1)] = mm.group(2)
            continue
        if ln.startswith('$'):
            continue
        if ln[0] == '%':
            p = P(tokenize(ln))
            name = p.next()[1]; p.expect('='); p.expect('type')
            m.named[name] = parse_type(p)
            continue
        if ln[0] == '@':
            p = P(tokenize(ln))
            name = p.next()[1]; p.expect('=')
            g = Val('gdef', None, name=name)
            g.linkage = []
            while p.peek()[0] == 'word' and p.peek()[1] in LINKAGE:
                w = p.next()[1]; g.linkage.append(w)
                if w == 'thread_local' and p.peek()[1] == '(':
                    p.next(); p.next(); p.expect(')')
            if p.peek()[1] == 'alias' or p.peek()[1] == 'ifunc':
                p.next(); t = parse_type(p); p.expect(','); t2 = parse_type(p); g.alias = parse_value(p, t2)
                g.ty = t; g.init = None; g.const = True
                m.globals[name] = g
                continue
            kw = p.next()[1]
            assert kw in ('global', 'constant'), ln
            g.const = kw == 'constant'
            g.ty = parse_type(p)
            g.init = None
            if 'external' not in g.linkage and 'extern_weak' not in g.linkage and not p.done() and p.peek()[1] != ',':
                g.init = parse_value(p, g.ty)
            m.globals[name] = g
            continue
        if ln.startswith('declare') or ln.startswith('define'):
            p = P(tokenize(ln))
            isdef = p.next()[1] == 'define'
            f = Func(); f.isdef = isdef; f.linkage = []
            while p.peek()[0] == 'word' and (p.peek()[1] in LINKAGE or p.peek()[1] in PARAM_ATTRS or p.peek()[1] in ('align', 'dereferenceable', 'dereferenceable_or_null', 'ccc', 'fastcc')):
                if p.peek()[1] in LINKAGE or p.peek()[1] in ('ccc', 'fastcc'):
                    f.linkage.append(p.next()[1])
                else:
                    skip_attrs(p)
            f.ret = parse_type(p)
            f.name = p.next()[1]
            p.expect('(')
            f.params = []; f.va = False; f.sret = None
            if not p.accept(')'):
                while True:
                    if p.peek()[0] == 'dots':
                        p.next(); f.va = True
                    else:
                        t = parse_type(p)
                        # detect sret
                        j = p.i
                        skip_attrs(p)
                        if any(x[1] == 'sret' for x in p.t[j:p.i]):
                            f.sret = len(f.params)
                        nm = None
                        if p.peek()[0] in ('name', 'qname'):
                            nm = p.next()[1]
                        f.params.append((t, nm))
                    if p.accept(')'): break
                    p.expect(',')
            rest = [x[1] for x in p.t[p.i:]]
            f.attrgrps = [x for x in rest if x.startswith('#')]
            f.nounwind = any('nounwind' in m.attrs.get(a, '') for a in f.attrgrps) if False else None
            f.rest = rest
            f.blocks = collections.OrderedDict()
            if isdef:
                cur = None
                # first block label is implicit: number = len(params) (unnamed counter)
                cnt = sum(1 for (t, nm) in f.params if nm is None or re.fullmatch(r'%\d+', nm))
                cur = '%' + str(cnt)
                f.blocks[cur] = []
                f.entry = cur
                first = True
                while True:
                    ln = lines[i]; i += 1
                    if ln == '}':
                        break
                    if not ln.strip():
                        continue
                    mm = re.match(r'^([-A-Za-z$._0-9]+|"(?:[^"\\]|\\.)*"):', ln)
                    if mm:
                        lab = '%' + mm.group(1)
                        if first and not f.blocks[cur]:
                            del f.blocks[cur]; f.entry = lab
                        cur = lab; f.blocks[cur] = []
                        continue
                    first = False
                    # join continuation lines (invoke/landingpad/switch)
                    s = ln
                    st = s.strip()
                    if ' invoke ' in (' ' + st) and 'unwind label' not in st:
                        s += ' ' + lines[i]; i += 1
                    elif 'landingpad' in st:
                        while i < len(lines) and re.match(r'^\s+(cleanup|catch|filter)\b', lines[i]):
                            s += ' ' + lines[i]; i += 1
                    elif st.startswith('switch') and st.endswith('['):
                        while not lines[i].strip().startswith(']'):
                            s += ' ' + lines[i]; i += 1
                        s += ' ]'; i += 1
                    f.blocks[cur].append(s)
            m.funcs[f.name] = f
            continue
        raise SyntaxError('top: ' + ln[:80])
    return m


# ----------------------------------------------------------------- C emission
def san(n):
    n = n[1:]
    if n.startswith('"'):
        n = n[1:-1]
    s = re.sub(r'[^A-Za-z0-9_]', '_', n)
    if s != n:
        s += '_' + hashlib.md5(n.encode()).hexdigest()[:6]
    return s


STD_BASES = {
    '_ZTISt9exception': None,
    '_ZTISt9bad_alloc': '_ZTISt9exception',
    '_ZTISt20bad_array_new_length': '_ZTISt9bad_alloc',
    '_ZTISt8bad_cast': '_ZTISt9exception',
    '_ZTISt11logic_error': '_ZTISt9exception',
    '_ZTISt13runtime_error': '_ZTISt9exception',
    '_ZTISt12out_of_range': '_ZTISt11logic_error',
    '_ZTISt16invalid_argument': '_ZTISt11logic_error',
    '_ZTISt12length_error': '_ZTISt11logic_error',
    '_ZTISt12domain_error': '_ZTISt11logic_error',
    '_ZTISt11range_error': '_ZTISt13runtime_error',
    '_ZTISt14overflow_error': '_ZTISt13runtime_error',
    '_ZTISt15underflow_error': '_ZTISt13runtime_error',
    '_ZTISt12system_error': '_ZTISt13runtime_error',
    '_ZTISt17bad_function_call': '_ZTISt9exception',
    '_ZTISt18bad_variant_access': '_ZTISt9exception',
    '_ZTISt19bad_optional_access': '_ZTISt9exception',
}

HANDLED_INLINE = {'__cxa_throw', '__cxa_rethrow', '__cxa_begin_catch', '__cxa_end_catch', '__gxx_personality_v0'}

NOTHROW_EXT = {'memcpy', 'memmove', 'memset', 'strlen', 'memcmp', 'malloc', 'free', 'memchr', 'strcmp', 'toupper', 'tolower',
               'isdigit', 'isxdigit', 'isalnum', 'isblank', '_ZdlPv', '_ZdaPv', '__cxa_allocate_exception', '__cxa_free_exception',
               '__cxa_begin_catch', '__cxa_end_catch', 'abs', 'strtoull', 'strtod', 'strtof', 'vasprintf', '__errno_location',
               '_ZdlPvm'}


class Emit:
    def __init__(self, m, roots=None):
        self.m = m
        self.out = []
        self.structs = collections.OrderedDict()  # key -> (cname, ty)
        self.struct_order = []
        self.tyids = {}
        for n in STD_BASES: self.tyid(n)
        self.roots = roots
        self.fnptr_t = 'verif_fn_t'
        self.provided = set()   # C names (X_...) defined by the runtime model / harness
        self.unmodelled = []    # externals that got an assert-false body

    # ---- types
    def resolve(self, t):
        while isinstance(t, NamedT):
            t = self.m.named[t.name]
        return t

    def cty(self, t):
        if isinstance(t, IntT):
            n = t.n
            if n == 1: return 'uint8_t'
            if n <= 8: return 'uint8_t'
            if n <= 16: return 'uint16_t'
            if n <= 32: return 'uint32_t'
            if n <= 64: return 'uint64_t'
            return 'unsigned __int128'
        if isinstance(t, FloatT):
            return {'float': 'float', 'double': 'double', 'x86_fp80': 'long double'}[t.k]
        if isinstance(t, VoidT):
            return 'void'
        if isinstance(t, PtrT):
            to = t.to
            if isinstance(to, FuncT):
                return self.fnptr_t
            if isinstance(to, VoidT):
                return 'uint8_t*'
            return self.cty(to) + '*'
        if isinstance(t, NamedT):
            return 'struct N_' + san(t.name)
        if isinstance(t, (StructT, ArrT, VecT)):
            k = t.key()
            if k not in self.structs:
                cname = 'struct L_' + hashlib.md5(k.encode()).hexdigest()[:10]
                self.structs[k] = (cname, t)
            return self.structs[k][0]
        if isinstance(t, FuncT):
            return 'void'
        raise TypeError(t)

    def mark_in_union(self):
        """--union-fp-bytes: flag LLVM 'union.*' structs and the structs nested in them by value (idempotent)"""
        if getattr(self, '_in_union_done', False) or not self.opt_union_fp_bytes:
            return
        self._in_union_done = True
        work = [n for n, t in self.m.named.items() if isinstance(t, StructT) and n.lstrip('%').strip('"').startswith('union.')]
        while work:
            t = self.m.named[work.pop()]
            if getattr(t, 'in_union', False): continue
            t.in_union = True
            for e in t.els:
                while isinstance(e, (ArrT, VecT)): e = e.el
                if isinstance(e, NamedT) and isinstance(self.m.named.get(e.name), StructT): work.append(e.name)

    def emit_struct_defs(self):
        """emit all struct definitions in dependency order"""
        done = set(); lines = []; fwd = []

        def body(t):
            t0 = t
            if isinstance(t, ArrT) or isinstance(t, VecT):
                return '{ %s a[%d]; }' % (self.cty(t.el), max(t.n, 1)), [t.el], False
            els = t.els
            if getattr(t, 'opaque', False):
                return None, [], False
            if self.opt_flat_unions and getattr(t, 'is_union', False):
                # --flat-unions: 2/4/8-byte integer members of LLVM 'union.*' structs (e.g. std::string's {i64 capacity, [8 x i8]}
                # small-string buffer) become aligned byte arrays: same layout, all accesses already go through casts, but
                # byte-wise writes followed by byte-wise reads constant-fold in CBMC instead of nesting byte_update in a uint64
                fs = ''.join((' uint8_t f%d[%d] __attribute__((aligned(%d)));' % (i, self.bits(e) // 8, self.bits(e) // 8)) if isinstance(self.resolve(e), IntT) and self.bits(e) in (16, 32, 64)
                             else ' %s f%d;' % (self.cty(e), i) for i, e in enumerate(els))
            elif self.opt_union_fp_bytes and getattr(t, 'in_union', False):
                # --union-fp-bytes: float/double members of LLVM 'union.*' structs and of the structs they contain by value (e.g.
                # std::variant's _Uninitialized<double> that overlays a std::string) become aligned byte arrays. Same layout; all
                # memory accesses already go through pointer casts. Reason: CBMC loses the object identity of a POINTER that is
                # stored (type-punned) into a double-typed location and later dereferenced (reads come back unconstrained);
                # integer/byte-typed locations keep it. A by-value (extract/insertvalue) use of such a member does not compile.
                fs = ''.join((' uint8_t f%d[%d] __attribute__((aligned(%d)));' % (i, {'float': 4, 'double': 8}[self.resolve(e).k], {'float': 4, 'double': 8}[self.resolve(e).k]))
                             if isinstance(self.resolve(e), FloatT) and self.resolve(e).k in ('float', 'double')
                             else ' %s f%d;' % (self.cty(e), i) for i, e in enumerate(els))
            else:
                fs = ''.join(' %s f%d;' % (self.cty(e), i) for i, e in enumerate(els))
            if not els:
                fs = ' uint8_t empty_[0];'
            return '{' + fs + ' }', els, t.packed

        def need(t):
            # by-value dependencies
            if isinstance(t, NamedT):
                visit(('n', t.name))
            elif isinstance(t, (StructT, ArrT, VecT)):
                self.cty(t)
                visit(('l', t.key()))

        def visit(k):
            if k in done: return
            done.add(k)
            if k[0] == 'n':
                t = self.m.named[k[1]]; cname = 'struct N_' + san(k[1])
                if isinstance(t, StructT) and k[1].lstrip('%').strip('"').startswith('union.'):
                    t.is_union = True
            else:
                cname, t = self.structs[k[1]]
            b, deps, packed = body(t) if not isinstance(t, NamedT) else (None, [], False)
            if b is None:
                return
            for d in deps:
                need(d)
            lines.append('%s %s%s;' % (cname, b, ' __attribute__((packed))' if packed else ''))

        self.mark_in_union()
        # force creation of literal struct names by touching all named types
        for n, t in self.m.named.items():
            if isinstance(t, StructT):
                for e in t.els: self.cty(e)
        progress = True
        while progress:
            before = len(self.structs)
            for k in list(self.structs):
                _, t = self.structs[k]
                if isinstance(t, (ArrT, VecT)): self.cty(t.el)
                else:
                    for e in t.els: self.cty(e)
            progress = len(self.structs) != before
        for n in self.m.named:
            fwd.append('struct N_%s;' % san(n))
        for k, (cn, t) in self.structs.items():
            fwd.append(cn + ';')
        for n in self.m.named:
            visit(('n', n))
        for k in list(self.structs):
            visit(('l', k))
        return fwd + lines

    # ---- helpers
    def bits(self, t):
        t = self.resolve(t)
        return t.n if isinstance(t, IntT) else 64

    def mask(self, e, t):
        n = self.bits(t)
        if n in (8, 16, 32, 64, 128):
            return '((%s)(%s))' % (self.cty(t), e)
        return '((%s)((%s) & %s))' % (self.cty(t), e, hex((1 << n) - 1) + 'ULL')

    def sx(self, e, t):
        """signed view of int expr e of type t"""
        n = self.bits(t)
        st = {8: 'int8_t', 16: 'int16_t', 32: 'int32_t', 64: 'int64_t', 128: '__int128'}
        if n in st:
            return '((%s)(%s))' % (st[n], e)
        # odd width: shift up into next native
        for w in (8, 16, 32, 64):
            if n < w:
                return '((%s)((%s)((%s)(%s) << %d)) >> %d)' % (st[w], st[w], self.cty(IntT(w)), e, w - n, w - n)
        raise TypeError

    def tyid(self, name):
        if name not in self.tyids:
            self.tyids[name] = len(self.tyids) + 1
        return self.tyids[name]

    def gname(self, name):
        f = self.m.funcs.get(name)
        if f is not None and not f.isdef:
            return 'X_' + san(name)
        g = self.m.globals.get(name)
        if g is not None and g.init is None and not hasattr(g, 'alias'):
            return 'X_' + san(name)
        return 'G_' + san(name) if name in self.m.globals else san(name)

    # ---- constants / operands
    def val(self, v, local=None):
        t = v.ty
        k = v.kind
        if k == 'local':
            return 'v_' + san(v.name)
        if k == 'global':
            n = v.name
            if n in self.m.funcs:
                return '((%s)&%s)' % (self.fnptr_t, self.gname(n)) if isinstance(t, PtrT) and isinstance(t.to, FuncT) else '((%s)&%s)' % (self.cty(t), self.gname(n))
            return '((%s)&%s)' % (self.cty(t), self.gname(n))
        if k == 'num':
            tt = self.resolve(t)
            if isinstance(tt, FloatT):
                x = v.text
                if x.startswith('0x'):
                    import struct
                    if x[2] in 'KLMHR':
                        raise SyntaxError('fp80 const')
                    d = struct.unpack('>d', bytes.fromhex(x[2:].rjust(16, '0')))[0]
                    if d != d: return '(0.0/0.0)'
                    if d in (float('inf'), float('-inf')): return '(%s1.0/0.0)' % ('-' if d < 0 else '')
                    return '(%s)%s' % (self.cty(tt), d.hex())
                return '(%s)%s' % (self.cty(tt), x)
            n = int(v.text)
            b = self.bits(tt)
            n &= (1 << b) - 1
            if b > 64:
                return '(((unsigned __int128)%dULL << 64) | %dULL)' % (n >> 64, n & ((1 << 64) - 1))
            return '((%s)%dULL)' % (self.cty(tt), n)
        if k in ('true', 'false'):
            return '((uint8_t)%d)' % (1 if k == 'true' else 0)
        if k == 'null':
            return '((%s)0)' % self.cty(t)
        if k in ('undef', 'poison', 'zeroinitializer'):
            tt = self.resolve(t)
            if isinstance(tt, (StructT, ArrT, VecT)):
                return '((%s){0})' % self.cty(t)
            return '((%s)0)' % self.cty(t)
        if k == 'cexpr':
            return self.cexpr(v)
        if k == 'meta':
            return '0'
        if k in ('cstruct', 'carr', 'cvec', 'cstr'):
            return '((%s)%s)' % (self.cty(t), self.init(v))
        raise TypeError(k)

    def init(self, v):
        """brace initializer (for globals)"""
        k = v.kind
        t = self.resolve(v.ty)
        if k == 'cstr':
            s = v.text[2:-1]; bs = []
            j = 0
            while j < len(s):
                if s[j] == '\\':
                    if s[j + 1] == '\\': bs.append(92); j += 2
                    else: bs.append(int(s[j + 1:j + 3], 16)); j += 3
                else:
                    bs.append(ord(s[j])); j += 1
            return '{{' + ','.join(map(str, bs)) + '}}'
        if k in ('carr', 'cvec'):
            return '{{' + ','.join(self.init(e) for e in v.els) + '}}'
        if k == 'cstruct':
            return '{' + ','.join(self.init(e) for e in v.els) + '}'
        if k in ('zeroinitializer', 'undef', 'poison'):
            if isinstance(t, (StructT, ArrT, VecT)):
                return '{0}'
            return '0'
        return self.val(v)

    def gep(self, base_ty, ops, vals):
        """vals: C exprs for ops"""
        e = '(%s)' % vals[0]
        # first index: pointer arithmetic
        cur = base_ty
        e = '(&(%s)[%s])' % (e, self.idx(ops[1], vals[1]))
        # cheaper when index 0
        path = ''
        for o, cv in zip(ops[2:], vals[2:]):
            rt = self.resolve(cur)
            if isinstance(rt, StructT):
                n = int(o.text); path += '.f%d' % n; cur = rt.els[n]
            elif isinstance(rt, (ArrT, VecT)):
                path += '.a[%s]' % self.idx(o, cv); cur = rt.el
            else:
                raise TypeError('gep into %s' % rt)
        if path:
            e = '(&(*%s)%s)' % (e, path)
        return e, cur

    def idx(self, o, cv):
        if o.kind == 'num':
            return str(int(o.text))
        return self.sx(cv, o.ty)

    def cexpr(self, v):
        op = v.op
        a = [self.val(x) for x in v.ops]
        if op == 'getelementptr':
            e, cur = self.gep(v.base_ty, v.ops, a)
            return '((%s)%s)' % (self.cty(PtrT(cur)), e)
        if op in ('bitcast', 'inttoptr', 'ptrtoint', 'addrspacecast'):
            return '((%s)%s)' % (self.cty(v.ty), a[0])
        return self.arith(op, v.ty, v.ops, a, pred=getattr(v, 'pred', None))

    def arith(self, op, rty, ops, a, pred=None):
        t0 = ops[0].ty
        r0 = self.resolve(t0)
        isf = isinstance(r0, FloatT)
        if op in ('add', 'sub', 'mul', 'and', 'or', 'xor'):
            c = {'add': '+', 'sub': '-', 'mul': '*', 'and': '&', 'or': '|', 'xor': '^'}[op]
            wide = self.cty(rty) if self.bits(rty) > 32 else 'uint64_t' if self.bits(rty) > 16 else 'uint32_t'
            return self.mask('(%s)%s %s (%s)%s' % (wide, a[0], c, wide, a[1]), rty)
        if op in ('udiv', 'urem'):
            c = '/' if op == 'udiv' else '%'
            return self.mask('%s %s %s' % (a[0], c, a[1]), rty)
        if op in ('sdiv', 'srem'):
            c = '/' if op == 'sdiv' else '%'
            return self.mask('%s %s %s' % (self.sx(a[0], t0), c, self.sx(a[1], t0)), rty)
        if op == 'shl':
            return self.mask('(%s)%s << %s' % (self.cty(rty) if self.bits(rty) >= 32 else 'uint32_t', a[0], a[1]), rty)
        if op == 'lshr':
            return self.mask('%s >> %s' % (a[0], a[1]), rty)
        if op == 'ashr':
            return self.mask('%s >> %s' % (self.sx(a[0], t0), a[1]), rty)
        if op in ('fadd', 'fsub', 'fmul', 'fdiv'):
            c = {'fadd': '+', 'fsub': '-', 'fmul': '*', 'fdiv': '/'}[op]
            return '((%s)(%s %s %s))' % (self.cty(rty), a[0], c, a[1])
        if op == 'frem':
            return 'fmod(%s,%s)' % (a[0], a[1])
        if op == 'fneg':
            return '(-%s)' % a[0]
        if op == 'icmp':
            isp = isinstance(r0, PtrT)
            if pred in ('eq', 'ne'):
                return '((uint8_t)(%s %s %s))' % (a[0], '==' if pred == 'eq' else '!=', a[1])
            c = {'gt': '>', 'ge': '>=', 'lt': '<', 'le': '<='}[pred[1:]]
            if isp:
                x, y = '(uint64_t)' + a[0], '(uint64_t)' + a[1]
                if pred[0] == 's': x, y = '(int64_t)' + x, '(int64_t)' + y
            elif pred[0] == 's':
                x, y = self.sx(a[0], t0), self.sx(a[1], t0)
            else:
                x, y = a[0], a[1]
            return '((uint8_t)(%s %s %s))' % (x, c, y)
        if op == 'fcmp':
            x, y = a
            unord = '(isnan(%s) || isnan(%s))' % (x, y)
            base = {'eq': '==', 'ne': '!=', 'gt': '>', 'ge': '>=', 'lt': '<', 'le': '<='}
            if pred == 'true': return '((uint8_t)1)'
            if pred == 'false': return '((uint8_t)0)'
            if pred == 'ord': return '((uint8_t)!%s)' % unord
            if pred == 'uno': return '((uint8_t)%s)' % unord
            if pred[0] == 'o':
                return '((uint8_t)(!%s && (%s %s %s)))' % (unord, x, base[pred[1:]], y)
            return '((uint8_t)(%s || (%s %s %s)))' % (unord, x, base[pred[1:]], y)
        if op == 'select':
            return '(%s ? %s : %s)' % (a[0], a[1], a[2])
        if op == 'trunc':
            return self.mask(a[0], rty)
        if op == 'zext':
            return '((%s)%s)' % (self.cty(rty), a[0])
        if op == 'sext':
            return self.mask('(%s)%s' % ('__int128' if self.bits(rty) > 64 else 'int64_t', self.sx(a[0], t0)), rty)
        if op in ('fptoui',):
            return self.mask('(%s)%s' % (self.cty(rty), a[0]), rty)
        if op in ('fptosi',):
            return self.mask('(int64_t)%s' % a[0], rty)
        if op == 'uitofp':
            return '((%s)%s)' % (self.cty(rty), a[0])
        if op == 'sitofp':
            return '((%s)%s)' % (self.cty(rty), self.sx(a[0], t0))
        if op in ('fpext', 'fptrunc'):
            return '((%s)%s)' % (self.cty(rty), a[0])
        raise TypeError('arith ' + op)

    # ---- exception class relation
    def build_bases(self):
        """class relation used by landing pads: name -> None | base name | list of base names (public bases only).
        __si_class_type_info = {vtable, name, base}; __vmi_class_type_info = {vtable, name, flags, count, (base, offset_flags)*}
        with offset_flags = offset << 8 | flags (1 = virtual, 2 = public). Catching through a base at a non-zero offset (or a
        virtual base) needs a pointer adjustment the model does not do: such (type, base) pairs are recorded in
        self.adjusted_bases and reaching one in a landing pad is reported as unmodelled, never silently mismatched."""
        def glob(v):
            while v.kind == 'cexpr':
                v = v.ops[0]
            return v.name[1:].strip('"') if v.kind == 'global' else None
        b = dict(STD_BASES)
        self.adjusted_bases = set()
        for n, g in self.m.globals.items():
            nm = n[1:].strip('"')
            if nm.startswith('_ZTI') and g.init is not None and g.init.kind == 'cstruct' and len(g.init.els) >= 3:
                els = g.init.els
                if glob(els[0]) == '_ZTVN10__cxxabiv121__vmi_class_type_infoE':
                    lst = []
                    for i in range(4, len(els) - 1, 2):
                        bn = glob(els[i])
                        of = int(els[i + 1].text) if els[i + 1].kind == 'num' else None
                        if bn is None or of is None:
                            raise TypeError('unsupported __vmi_class_type_info ' + nm)
                        if not (of & 2):
                            continue  # non-public base: not catchable
                        lst.append(bn)
                        if (of & 1) or (of >> 8) != 0:
                            self.adjusted_bases.add((nm, bn))
                    b[nm] = lst
                else:
                    base = glob(els[2])
                    if base is not None:
                        b[nm] = base
            elif nm.startswith('_ZTI') and nm not in b:
                b.setdefault(nm, None)
        self.bases = b

    def direct_bases(self, n):
        x = self.bases.get(n)
        return [] if x is None else ([x] if isinstance(x, str) else list(x))

    def ancestors(self, n):
        """n and all its (public) bases, with a flag: reached through an edge that needs a pointer adjustment"""
        out = {n: False}
        work = [n]
        while work:
            x = work.pop()
            for y in self.direct_bases(x):
                adj = out[x] or ((x, y) in self.adjusted_bases)
                if y not in out or (out[y] and not adj):
                    out[y] = adj; work.append(y)
        return out

    def subclass_ids(self, catch_name, adjusted=False):
        """ids of all known types that are catch_name or derive from it (adjusted=True: only those that reach it through
        a base at non-zero offset / virtual base)"""
        out = []
        for n in self.bases:
            a = self.ancestors(n)
            if catch_name in a and (not adjusted or a[catch_name]):
                out.append(self.tyid(n))
        if not adjusted and self.tyid(catch_name) not in out:
            out.append(self.tyid(catch_name))
        return out

    def caught_pointer_unused(self, lp):
        """True when no handler reached from landing pad `lp` can look at the exception object: the exception pointer only
        flows (through phi / insertvalue / extractvalue) into __cxa_begin_catch calls whose result has no use, into resume or
        into __clang_call_terminate. Then catching through a base at a non-zero offset needs no pointer adjustment
        (e.g. `catch (const std::exception&) { cleanup; throw; }`). Anything else keeps the 'unmodelled' report."""
        allins = [i for inss in self.blocks.values() for i in inss]
        def uses(name, i):
            body = i['raw'].split('=', 1)[1] if i.get('res') else i['raw']
            return re.search(re.escape(name) + r'(?![\w.$-])', body) is not None
        if not lp.get('res'):
            return False
        tracked = {lp['res']}
        work = [lp['res']]
        while work:
            v = work.pop()
            for i in allins:
                if i is lp or not uses(v, i):
                    continue
                op = i['op']
                if op == 'extractvalue':
                    if i.get('idx') == [1]:
                        continue  # selector
                    if i.get('idx') != [0]:
                        return False
                elif op in ('phi', 'insertvalue'):
                    pass
                elif op == 'resume':
                    continue
                elif op in ('call', 'invoke'):
                    cal = i.get('callee')
                    cn = cal.name[1:] if cal is not None and getattr(cal, 'kind', None) == 'global' else None
                    if cn == '__clang_call_terminate':
                        continue
                    if cn != '__cxa_begin_catch':
                        return False
                    r = i.get('res')
                    if r and any(uses(r, j) for j in allins if j is not i):
                        return False
                    continue
                else:
                    return False
                r = i.get('res')
                if r and r not in tracked:
                    tracked.add(r); work.append(r)
        return True

    # ---- functions
    def ext_cty(self, t):
        return 'uint8_t*' if isinstance(self.resolve(t), PtrT) else self.cty(t)

    def fsig(self, f, name=None):
        ps = []
        for i, (t, nm) in enumerate(f.params):
            ps.append('%s %s' % (self.cty(t) if f.isdef else self.ext_cty(t), 'v_' + san(nm) if nm else 'a%d' % i))
        if not f.isdef:
            if f.va: ps.append('...')
            return '%s %s(%s)' % (self.ext_cty(f.ret), name or self.gname(f.name), ', '.join(ps) or 'void')
        if f.va: ps.append('...')
        return '%s %s(%s)' % (self.cty(f.ret), name or self.gname(f.name), ', '.join(ps) or 'void')

    def reachable(self, roots):
        seen = set(); work = list(roots); gl = set()
        while work:
            n = work.pop()
            if n in seen: continue
            seen.add(n)
            refs = []
            if n in self.m.funcs:
                f = self.m.funcs[n]
                for b in f.blocks.values():
                    for ins in b:
                        refs += re.findall(r'@(?:"(?:[^"\\]|\\.)*"|[-A-Za-z$._0-9]+)', ins)
            elif n in self.m.globals:
                g = self.m.globals[n]
                refs += self.grefs(g)
            for r in refs:
                if r not in seen: work.append(r)
        return seen

    def grefs(self, g):
        out = []

        def walk(v):
            if v is None: return
            if v.kind == 'global': out.append(v.name)
            for e in getattr(v, 'els', []) or []: walk(e)
            for e in getattr(v, 'ops', []) or []: walk(e)
        walk(g.init)
        if hasattr(g, 'alias'): walk(g.alias)
        return out

    def emit_module(self):
        self.build_bases()
        m = self.m
        live = self.reachable(self.roots) if self.roots else set(m.funcs) | set(m.globals)
        fbodies = []
        protos = []
        for n, f in m.funcs.items():
            if n not in live: continue
            if n.startswith('@llvm.'): continue
            if f.isdef:
                protos.append(self.fsig(f) + ';')
            else:
                protos.append(self.fsig(f) + ';')
        gdecl = []; gdef = []
        for n, g in m.globals.items():
            if n not in live: continue
            if n.startswith('@llvm.'): continue
            if hasattr(g, 'alias'):
                continue
            cn = self.gname(n)
            if g.init is None:
                gdecl.append('extern %s %s;' % (self.cty(g.ty), cn))
            else:
                gdecl.append('extern %s %s;' % (self.cty(g.ty), cn))
                gdef.append('%s %s = %s;' % (self.cty(g.ty), cn, self.init(g.init)))
        self.emitted_funcs = []
        for n, f in m.funcs.items():
            if n in live and f.isdef:
                fbodies.append(self.emit_func(f))
                self.emitted_funcs.append(n[1:].strip('"'))
        # externals nobody provides: body = assertion failure (never a silent nondet)
        autostubs = []
        for n, f in m.funcs.items():
            if n not in live or f.isdef or n.startswith('@llvm.'): continue
            cn = self.gname(n)
            if cn in self.provided or n[1:] in HANDLED_INLINE: continue
            self.unmodelled.append(n[1:])
            rz = self.zero_ext(f.ret)
            autostubs.append('%s { verif_unmodelled("%s"); return %s; }' % (self.fsig(f), n[1:].replace('"', ''), rz))
        for n, g in m.globals.items():
            if n not in live or n.startswith('@llvm.') or hasattr(g, 'alias'): continue
            if g.init is None and self.gname(n) not in self.provided:
                rt_ = self.resolve(g.ty)
                if (re.match(r'@_ZTV(St|NSt)', n) and isinstance(rt_, StructT) and len(rt_.els) == 1 and isinstance(self.resolve(rt_.els[0]), ArrT)
                        and self.resolve(rt_.els[0]).n == 5):
                    # vtable of an external std exception class ([offset-to-top, typeinfo, D1, D0, what]): model entries from rt_model.c
                    gdef.append('%s %s = {{{0, 0, (uint8_t*)&verif_std_exc_dtor, (uint8_t*)&verif_std_exc_dtor, (uint8_t*)&verif_std_exc_what}}}; /* external std exception vtable, model */' % (self.cty(g.ty), self.gname(n)))
                    continue
                gdef.append('%s %s; /* external object, zero model */' % (self.cty(g.ty), self.gname(n)))
        fbodies = fbodies + autostubs
        structs = self.emit_struct_defs()
        tdefs = []
        for k, (cn, t) in self.structs.items():
            tdefs.append('typedef %s T_%s;' % (cn, re.sub(r'[^A-Za-z0-9]', '_', k)))
        for n in self.m.named:
            tdefs.append('typedef struct N_%s TN_%s;' % (san(n), re.sub(r'_[0-9a-f]{6}$', '', san(n))))
        structs = structs + sorted(set(tdefs))
        hdr = ['#include <stdint.h>', '#include <string.h>', '#include <math.h>', '#include <stdarg.h>', '#include "verif_rt.h"', '']
        ids = ['/* exception type ids */'] + ['#define TID_%s %d' % (re.sub(r'[^A-Za-z0-9_]', '_', n), i) for n, i in self.tyids.items()]
        tail = [open(x).read() for x in getattr(self, 'append', [])]
        return '\n'.join(hdr + structs + [''] + protos + [''] + gdecl + [''] + gdef + [''] + fbodies + [''] + ids + [''] + tail)

    def emit_func(self, f):
        self.f = f
        out = []
        decls = collections.OrderedDict()
        body = []
        # pre-scan: types of all locals
        self.ltypes = {}
        for i, (t, nm) in enumerate(f.params):
            if nm: self.ltypes[nm] = t
        # parse all instructions
        blocks = collections.OrderedDict()
        for lab, inss in f.blocks.items():
            blocks[lab] = []
            for s in inss:
                try:
                    blocks[lab].append(self.parse_ins(s))
                except Exception as ex:
                    sys.stderr.write('FAILED INS in %s: %s\n' % (f.name, s)); raise
        # order blocks in reverse post-order so that only natural-loop back edges jump backwards (CBMC loop detection)
        succ = {}
        for lab, inss in blocks.items():
            t = inss[-1]; d = []
            if t['op'] == 'br': d = list(t['dest'])
            elif t['op'] == 'switch': d = [t['default']] + [l for _, l in t['cases']]
            elif t['op'] == 'invoke': d = [t['normal'], t['unwind']]
            succ[lab] = d
        seen = set(); post = []
        stack = [(f.entry, iter(succ[f.entry]))]; seen.add(f.entry)
        while stack:
            lab, it = stack[-1]
            nxt = next(it, None)
            if nxt is None:
                post.append(lab); stack.pop()
            elif nxt not in seen:
                seen.add(nxt); stack.append((nxt, iter(succ[nxt])))
        order = post[::-1]
        blocks = collections.OrderedDict((l, blocks[l]) for l in order)
        self.blocks = blocks
        self.defs = {i['res']: i for inss in blocks.values() for i in inss if i.get('res')}
        # phi copies per edge
        phis = {lab: [i for i in inss if i['op'] == 'phi'] for lab, inss in blocks.items()}
        self.phis = phis
        self.tmpn = 0
        self.extra_decls = []
        zero = self.zero(f.ret)
        self.retzero = zero
        for lab, inss in blocks.items():
            body.append('L_%s: ;' % san(lab))
            for ins in inss:
                if ins['op'] == 'phi': continue
                self.cur_lab = lab
                body += ['  ' + x for x in self.emit_ins(ins)]
        for nm, t in self.ltypes.items():
            if any(nm == p[1] for p in f.params): continue
            tt = self.resolve(t)
            if isinstance(tt, VoidT): continue
            decls['v_' + san(nm)] = self.cty(t)
        out.append(self.fsig(f) + ' {')
        for n, t in decls.items():
            out.append('  %s %s;' % (t, n))
        for n, t in self.extra_decls:
            if self.opt_zero_allocas and n.startswith('al') and t != 'va_list':
                out.append('  %s %s = {0};' % (t, n))  # opt-in --zero-allocas: stack objects start zeroed (see option help)
            else:
                out.append('  %s %s;' % (t, n))
        out.append('  goto L_%s;' % san(f.entry))
        out += body
        out.append('}')
        return '\n'.join(out)

    phis_any = False
    opt_ptrdiff = False
    opt_flat_unions = False
    opt_union_fp_bytes = False
    opt_zero_allocas = False
    opt_thread_br = False
    phi_tmps = set()
    extra_decls = []

    def zero_ext(self, t):
        tt = self.resolve(t)
        if isinstance(tt, VoidT): return ''
        if isinstance(tt, (StructT, ArrT, VecT)): return '(%s){0}' % self.cty(t)
        return '(%s)0' % self.ext_cty(t)

    def zero(self, t):
        tt = self.resolve(t)
        if isinstance(tt, VoidT): return ''
        if isinstance(tt, (StructT, ArrT, VecT)): return '(%s){0}' % self.cty(t)
        return '(%s)0' % self.cty(t)

    # ---- instruction parsing
    def parse_ins(self, s):
        p = P(tokenize(s))
        ins = {'raw': s}
        res = None
        if p.peek()[0] in ('name', 'qname') and p.peek(1)[1] == '=':
            res = p.next()[1]; p.next()
        ins['res'] = res
        op = p.next()[1]
        while op in ('tail', 'musttail', 'notail'):
            op = p.next()[1]
        ins['op'] = op
        T = lambda: parse_type(p)
        V = lambda t: parse_value(p, t)

        def flags(*fl):
            while p.peek()[0] == 'word' and p.peek()[1] in fl:
                p.next()
        FM = ('fast', 'nnan', 'ninf', 'nsz', 'arcp', 'contract', 'afn', 'reassoc')
        if op in ('add', 'sub', 'mul', 'shl', 'udiv', 'sdiv', 'urem', 'srem', 'lshr', 'ashr', 'and', 'or', 'xor', 'fadd', 'fsub', 'fmul', 'fdiv', 'frem'):
            flags('nuw', 'nsw', 'exact', *FM)
            t = T(); a = V(t); p.expect(','); b = V(t)
            ins.update(ty=t, ops=[a, b])
        elif op == 'fneg':
            flags(*FM); t = T(); a = V(t); ins.update(ty=t, ops=[a])
        elif op in ('icmp', 'fcmp'):
            flags(*FM)
            pred = p.next()[1]; t = T(); a = V(t); p.expect(','); b = V(t)
            ins.update(ty=IntT(1), ops=[a, b], pred=pred)
        elif op in ('trunc', 'zext', 'sext', 'bitcast', 'ptrtoint', 'inttoptr', 'fptoui', 'fptosi', 'uitofp', 'sitofp', 'fpext', 'fptrunc', 'addrspacecast'):
            t = T(); a = V(t); p.expect('to'); to = T()
            ins.update(ty=to, ops=[a])
        elif op == 'select':
            flags(*FM)
            t = T(); c = V(t); p.expect(','); t1 = T(); a = V(t1); p.expect(','); t2 = T(); b = V(t2)
            ins.update(ty=t1, ops=[c, a, b])
        elif op == 'freeze':
            t = T(); a = V(t); ins.update(ty=t, ops=[a])
        elif op == 'alloca':
            flags('inalloca')
            t = T(); n = None
            if p.accept(','):
                if p.peek()[1] != 'align' and p.peek()[1] != 'addrspace':
                    tn = T(); n = V(tn)
            ins.update(ty=PtrT(t), aty=t, n=n)
        elif op == 'load':
            atomic = p.accept('atomic'); flags('volatile')
            t = T(); p.expect(','); pt = T(); a = V(pt)
            ins.update(ty=t, ops=[a], atomic=atomic)
        elif op == 'store':
            atomic = p.accept('atomic'); flags('volatile')
            t = T(); a = V(t); p.expect(','); pt = T(); b = V(pt)
            ins.update(ty=VoidT(), ops=[a, b], atomic=atomic)
        elif op == 'getelementptr':
            flags('inbounds')
            bt = T(); p.expect(','); ops = []
            while True:
                t = T(); ops.append(V(t))
                if not p.accept(','): break
            ins.update(base_ty=bt, ops=ops)
            cur = bt
            for o in ops[2:]:
                rt = self.resolve(cur)
                cur = rt.els[int(o.text)] if isinstance(rt, StructT) else rt.el
            ins['ty'] = PtrT(cur)
        elif op == 'phi':
            flags(*FM)
            t = T(); inc = []
            while True:
                p.expect('['); v = V(t); p.expect(','); lab = p.next()[1]; p.expect(']')
                inc.append((v, lab))
                if not p.accept(','): break
            ins.update(ty=t, inc=inc)
        elif op in ('call', 'invoke'):
            flags(*FM)
            while p.peek()[0] == 'word' and p.peek()[1] in ('ccc', 'fastcc'): p.next()
            skip_attrs(p)
            rt = T()
            if isinstance(rt, FuncT):
                fty = rt; rt = fty.ret
            else:
                fty = None
            callee = V(PtrT(fty or FuncT(rt, [], False)))
            p.expect('(')
            args = []
            if not p.accept(')'):
                while True:
                    t = T(); skip_attrs(p); args.append(V(t))
                    if p.accept(')'): break
                    p.expect(',')
            ins.update(ty=rt, callee=callee, args=args, fty=fty)
            rest = [x[1] for x in p.t[p.i:]]
            ins['nounwind'] = any('nounwind' in self.m.attrs.get(a, '') for a in rest if a.startswith('#'))
            if op == 'invoke':
                j = rest.index('to'); ins['normal'] = rest[j + 2]; ins['unwind'] = rest[j + 5]
        elif op == 'ret':
            t = T()
            ins.update(ty=t, ops=[] if isinstance(t, VoidT) else [V(t)])
        elif op == 'br':
            t = T()
            if isinstance(t, LabelT):
                ins.update(dest=[p.next()[1]], ops=[])
            else:
                c = V(t); p.expect(','); T(); a = p.next()[1]; p.expect(','); T(); b = p.next()[1]
                ins.update(ops=[c], dest=[a, b])
        elif op == 'switch':
            t = T(); v = V(t); p.expect(','); T(); d = p.next()[1]; p.expect('[')
            cases = []
            while not p.accept(']'):
                ct = T(); cv = V(ct); p.expect(','); T(); lab = p.next()[1]
                cases.append((cv, lab))
            ins.update(ops=[v], default=d, cases=cases)
        elif op == 'unreachable':
            pass
        elif op == 'landingpad':
            t = T(); cl = []; cleanup = False
            while not p.done():
                w = p.next()[1]
                if w == 'cleanup': cleanup = True
                elif w == 'catch':
                    ct = T(); cv = V(ct); cl.append(('catch', cv))
                elif w == 'filter':
                    ct = T(); cv = V(ct); cl.append(('filter', cv))
            ins.update(ty=t, clauses=cl, cleanup=cleanup)
        elif op == 'resume':
            t = T(); ins.update(ops=[V(t)])
        elif op == 'extractvalue':
            t = T(); a = V(t); idx = []
            while p.accept(','): idx.append(int(p.next()[1]))
            cur = t
            for i in idx:
                rt = self.resolve(cur); cur = rt.els[i] if isinstance(rt, StructT) else rt.el
            ins.update(ty=cur, ops=[a], idx=idx)
        elif op == 'insertvalue':
            t = T(); a = V(t); p.expect(','); t2 = T(); b = V(t2); idx = []
            while p.accept(','): idx.append(int(p.next()[1]))
            ins.update(ty=t, ops=[a, b], idx=idx)
        elif op == 'atomicrmw':
            flags('volatile'); rop = p.next()[1]; pt = T(); a = V(pt); p.expect(','); t = T(); b = V(t)
            ins.update(ty=t, rop=rop, ops=[a, b])
        elif op == 'cmpxchg':
            flags('weak', 'volatile'); pt = T(); a = V(pt); p.expect(','); t = T(); b = V(t); p.expect(','); t2 = T(); c = V(t2)
            ins.update(ty=StructT([t, IntT(1)], False), ops=[a, b, c])
        elif op == 'fence':
            pass
        elif op == 'va_arg':
            raise SyntaxError('va_arg')
        else:
            raise SyntaxError('ins op %r in %r' % (op, s))
        if res is not None:
            self.ltypes[res] = ins['ty']
        return ins

    # ---- instruction emission
    def phi_moves(self, frm, to):
        ph = self.phis.get(to, [])
        if not ph: return []
        out = []
        tmps = []
        for k, i in enumerate(ph):
            for v, lab in i['inc']:
                if lab == frm:
                    tn = 'phi_t%d' % k
                    out.append('%s %s = %s;' % (self.cty(i['ty']), tn, self.val(v)))
                    tmps.append(('v_' + san(i['res']), tn))
                    break
        out += ['%s = %s;' % (a, b) for a, b in tmps]
        return out

    def need_tmp(self, n, t):
        if n not in [a for a, b in self.extra_decls]:
            self.extra_decls.append((n, t))

    def goto(self, to, frm=None, depth=0):
        frm = frm or self.cur_lab
        mv = self.phi_moves(frm, to)
        if self.opt_thread_br and depth < 4:
            t = self.thread_target(frm, to)
            if t is not None:
                # block `to` is only phis + a conditional br whose outcome this edge decides: do `to`'s phi moves, then take the
                # decided edge of `to` right here (its phi moves as coming from `to`); chains of such blocks are followed
                return '{ ' + ' '.join(mv) + ' ' + self.goto(t, frm=to, depth=depth + 1) + ' }'
        return '{ ' + ' '.join(mv) + ' goto L_%s; }' % san(to)

    def thread_target(self, frm, to):
        """opt-in (--thread-br): clang -O1 routes `return` from inside a loop through the loop latch with a phi'd "keep going" flag
        (latch: phis; br i1 %flag, %head, %exit). CBMC merges the paths at the latch, the flag and every loop-carried variable
        (e.g. a cursor pointer) become symbolic there and the exit test of the NEXT iteration no longer folds. Where the edge
        frm->to supplies a constant for the flag, the successor of `to` is known: return it (pure jump threading on the emitted C,
        `to`'s phi assignments are still executed, so values defined in `to` stay correct for every later use)."""
        blk = self.blocks.get(to)
        if not blk: return None
        rest = [i for i in blk if i['op'] != 'phi' and not (i['op'] == 'call' and i['callee'].kind == 'global' and i['callee'].name.startswith('@llvm.lifetime.'))]
        if len(rest) != 1 or rest[0]['op'] != 'br' or len(rest[0]['dest']) != 2: return None
        c = rest[0]['ops'][0]
        if c.kind != 'local': return None
        t = None
        for i in self.phis.get(to, []):
            if i['res'] == c.name:
                for v, lab in i['inc']:
                    if lab == frm:
                        if v.kind == 'true' or (v.kind == 'num' and int(v.text) & 1 == 1): t = rest[0]['dest'][0]
                        elif v.kind == 'false' or (v.kind == 'num' and int(v.text) & 1 == 0): t = rest[0]['dest'][1]
                        break
                break
        else:
            # `to` branches on the very SSA value `frm` has just branched on (if (c) goto to; ... to: if (c) ...): the edge decides it
            ft = self.blocks[frm][-1] if self.blocks.get(frm) else None
            if ft is not None and ft['op'] == 'br' and len(ft['dest']) == 2 and ft['dest'][0] != ft['dest'][1] \
                    and ft['ops'][0].kind == 'local' and ft['ops'][0].name == c.name:
                t = rest[0]['dest'][0] if ft['dest'][0] == to else rest[0]['dest'][1]
        # forward edges only: a second backward goto to a loop head would be a second "loop" for CBMC
        order = list(self.blocks)
        if t is not None and t in self.blocks and order.index(t) > order.index(to): return t
        return None

    def unwind_to(self, lab):
        """code executed when exception active after an invoke: enter pad if it matches else propagate"""
        lp = self.blocks[lab]
        lpi = next(i for i in lp if i['op'] != 'phi')
        assert lpi['op'] == 'landingpad', lpi
        conds = []
        if lpi['cleanup']:
            conds = ['1']
        else:
            for kind, cv in lpi['clauses']:
                if kind == 'catch':
                    nm = self.ti_name(cv)
                    if nm is None: conds = ['1']; break
                    conds.append('(' + ' || '.join('verif_exc_type == %d' % i for i in self.subclass_ids(nm)) + ')')
                else:
                    conds = ['1']; break
        c = ' || '.join(conds) or '0'
        return 'if (%s) %s else return %s;' % (c, self.goto(lab), self.retzero)

    def ti_name(self, cv):
        while cv.kind == 'cexpr': cv = cv.ops[0]
        if cv.kind == 'null': return None
        return cv.name[1:].strip('"')

    def emit_ins(self, ins):
        op = ins['op']; res = ins['res']
        R = ('v_' + san(res)) if res else None
        o = ins.get('ops', [])
        if op in ('add', 'sub', 'mul', 'shl', 'udiv', 'sdiv', 'urem', 'srem', 'lshr', 'ashr', 'and', 'or', 'xor', 'fadd', 'fsub', 'fmul', 'fdiv', 'frem', 'fneg',
                  'icmp', 'fcmp', 'trunc', 'zext', 'sext', 'fptoui', 'fptosi', 'uitofp', 'sitofp', 'fpext', 'fptrunc', 'select'):
            if op == 'sub' and self.opt_ptrdiff and self.bits(ins['ty']) == 64 and all(x.kind == 'local' for x in o):
                d = [self.defs.get(x.name) for x in o]
                if all(di is not None and di['op'] == 'ptrtoint' for di in d):
                    # --ptrdiff: (i64)p - (i64)q of two pointers goes through verif_ptrdiff (verif_rt.h): a C pointer difference
                    # when CBMC knows both point into the same object (constant-folds; (size_t)&a+16 - (size_t)&a does NOT
                    # fold and makes every std::string/vector size symbolic), the integer difference otherwise (LLVM
                    # speculates e.g. memchr_result - data above the null test). Same value in every case.
                    a0, a1 = self.val(d[0]['ops'][0]), self.val(d[1]['ops'][0])
                    return ['%s = verif_ptrdiff((uint8_t*)%s, (uint8_t*)%s);' % (R, a0, a1)]
            return ['%s = %s;' % (R, self.arith(op, ins['ty'], o, [self.val(x) for x in o], pred=ins.get('pred')))]
        if op in ('bitcast', 'ptrtoint', 'inttoptr', 'addrspacecast'):
            st, dt = self.resolve(o[0].ty), self.resolve(ins['ty'])
            if op == 'bitcast' and not isinstance(st, PtrT):
                # value reinterpretation
                tn = self.cty(ins['ty'])
                return ['{ %s s_ = %s; memcpy(&%s, &s_, sizeof(%s)); }' % (self.cty(o[0].ty), self.val(o[0]), R, tn)]
            return ['%s = (%s)%s;' % (R, self.cty(ins['ty']), self.val(o[0]))]
        if op == 'freeze':
            return ['%s = %s;' % (R, self.val(o[0]))]
        if op == 'alloca':
            n = self.tmpn; self.tmpn += 1
            if ins['n'] is not None and not (ins['n'].kind == 'num' and int(ins['n'].text) == 1):
                if ins['n'].kind == 'num':
                    self.need_tmp('al%d[%d]' % (n, int(ins['n'].text)), self.cty(ins['aty']))
                    return ['%s = al%d;' % (R, n)]
                return ['%s = (%s)__builtin_alloca(sizeof(%s) * %s);' % (R, self.cty(ins['ty']), self.cty(ins['aty']), self.val(ins['n']))]
            if '__va_list_tag' in ins['aty'].key():
                self.need_tmp('al%d' % n, 'va_list')
                return ['%s = (%s)&al%d;' % (R, self.cty(ins['ty']), n)]
            self.need_tmp('al%d' % n, self.cty(ins['aty']))
            return ['%s = &al%d;' % (R, n)]
        if op == 'load':
            if ins.get('atomic'):
                return ['%s = *(%s)verif_atomic_addr((uint8_t*)%s);' % (R, self.cty(o[0].ty), self.val(o[0]))]
            return ['%s = *%s;' % (R, self.val(o[0]))]
        if op == 'store':
            if ins.get('atomic'):
                return ['*(%s)verif_atomic_addr((uint8_t*)%s) = %s;' % (self.cty(o[1].ty), self.val(o[1]), self.val(o[0]))]
            return ['*%s = %s;' % (self.val(o[1]), self.val(o[0]))]
        if op == 'getelementptr':
            e, cur = self.gep(ins['base_ty'], o, [self.val(x) for x in o])
            return ['%s = (%s)%s;' % (R, self.cty(ins['ty']), e)]
        if op == 'br':
            if len(ins['dest']) == 1:
                return [self.goto(ins['dest'][0])]
            return ['if (%s) %s else %s' % (self.val(o[0]), self.goto(ins['dest'][0]), self.goto(ins['dest'][1]))]
        if op == 'switch':
            out = []
            v = self.val(o[0])
            for cv, lab in ins['cases']:
                out.append('if (%s == %s) %s' % (v, self.val(cv), self.goto(lab)))
            out.append(self.goto(ins['default']))
            return out
        if op == 'ret':
            return ['return %s;' % (self.val(o[0]) if o else '')]
        if op == 'unreachable':
            return ['verif_unreachable(); return %s;' % self.retzero]
        if op == 'extractvalue':
            e = self.val(o[0])
            cur = o[0].ty
            for i in ins['idx']:
                rt = self.resolve(cur)
                if isinstance(rt, StructT): e += '.f%d' % i; cur = rt.els[i]
                else: e += '.a[%d]' % i; cur = rt.el
            return ['%s = %s;' % (R, e)]
        if op == 'insertvalue':
            path = ''
            cur = o[0].ty
            for i in ins['idx']:
                rt = self.resolve(cur)
                if isinstance(rt, StructT): path += '.f%d' % i; cur = rt.els[i]
                else: path += '.a[%d]' % i; cur = rt.el
            return ['%s = %s; %s%s = %s;' % (R, self.val(o[0]), R, path, self.val(o[1]))]
        if op == 'landingpad':
            # selector
            out = ['%s.f0 = verif_exc_ptr; %s.f1 = 0;' % (R, R)]
            conds = []
            for kind, cv in reversed(ins['clauses']):
                if kind != 'catch': continue
                nm = self.ti_name(cv)
                if nm is None:
                    out.append('%s.f1 = %d;' % (R, self.tyid('__catch_all')))
                else:
                    out.append('if (%s) %s.f1 = %d;' % (' || '.join('verif_exc_type == %d' % i for i in self.subclass_ids(nm)), R, self.tyid(nm)))
                    adj = self.subclass_ids(nm, adjusted=True)
                    if adj and not self.caught_pointer_unused(ins):
                        # only when this clause is the one finally selected (an earlier clause naming the exact type wins)
                        conds.append('if ((%s) && %s.f1 == %d) verif_unmodelled("catch through a base class at non-zero offset");' % (' || '.join('verif_exc_type == %d' % i for i in adj), R, self.tyid(nm)))
            out += conds
            out.append('verif_exc_active = 0;')
            return out
        if op == 'resume':
            return ['verif_exc_active = 1; return %s;' % self.retzero]
        if op == 'atomicrmw':
            c = {'add': '+', 'sub': '-', 'and': '&', 'or': '|', 'xor': '^'}.get(ins['rop'])
            pv = '((%s)verif_atomic_addr((uint8_t*)%s))' % (self.cty(o[0].ty), self.val(o[0])); bv = self.val(o[1])
            self.need_tmp('at%d' % self.tmpn, self.cty(o[0].ty))
            pre = 'at%d = %s; ' % (self.tmpn, pv); pv = 'at%d' % self.tmpn; self.tmpn += 1
            if ins['rop'] == 'xchg':
                upd = bv
            else:
                upd = self.mask('*%s %s %s' % (pv, c, bv), ins['ty'])
            return [pre + '__CPROVER_atomic_begin(); %s = *%s; *%s = %s; __CPROVER_atomic_end();' % (R, pv, pv, upd)]
        if op == 'cmpxchg':
            self.need_tmp('at%d' % self.tmpn, self.cty(o[0].ty))
            pre = 'at%d = (%s)verif_atomic_addr((uint8_t*)%s); ' % (self.tmpn, self.cty(o[0].ty), self.val(o[0])); pv = 'at%d' % self.tmpn; self.tmpn += 1
            return [pre + '__CPROVER_atomic_begin(); %s.f0 = *%s; %s.f1 = (%s.f0 == %s); if (%s.f1) *%s = %s; __CPROVER_atomic_end();' % (R, pv, R, R, self.val(o[1]), R, pv, self.val(o[2]))]
        if op == 'fence':
            return ['__CPROVER_fence("WWfence", "RRfence", "RWfence", "WRfence");']
        if op in ('call', 'invoke'):
            return self.emit_call(ins, R)
        raise TypeError(op)

    def emit_call(self, ins, R):
        cal = ins['callee']
        args = ins['args']
        a = [self.val(x) for x in args]
        name = cal.name if cal.kind == 'global' else None
        inv = ins['op'] == 'invoke'
        post = []
        if inv:
            post = ['if (verif_exc_active) { %s }' % self.unwind_to(ins['unwind']), self.goto(ins['normal'])]
        as_ = lambda e: ['%s = %s;' % (R, e)] if R else ['%s;' % e]
        if name and name.startswith('@llvm.'):
            n = name[6:]
            if n.startswith('lifetime') or n.startswith('dbg.') or n.startswith('experimental.noalias') or n.startswith('invariant'):
                return post
            if n.startswith('memcpy') or n.startswith('memmove'):
                fn = 'verif_memmove' if n.startswith('memmove') else 'verif_memcpy'
                return ['%s((uint8_t*)%s, (uint8_t*)%s, %s);' % (fn, a[0], a[1], a[2])] + post
            if n.startswith('memset'):
                return ['verif_memset((uint8_t*)%s, %s, %s);' % (a[0], a[1], a[2])] + post
            if n.startswith('assume'):
                return ['__CPROVER_assume(%s);' % a[0]] + post
            if n.startswith('expect'):
                return as_(a[0]) + post
            if n.startswith('eh.typeid.for'):
                nm = self.ti_name(args[0])
                return as_('%d' % self.tyid(nm if nm else '__catch_all'))
            if n.startswith('trap'):
                return ['verif_trap();'] + post
            t = ins['ty']
            if n.startswith('bswap'):
                b = self.bits(t)
                e = ' | '.join('(((%s >> %d) & 0xFF) << %d)' % (a[0], 8 * i, b - 8 - 8 * i) for i in range(b // 8))
                return as_(self.mask(e, t))
            if n.startswith('fshl') or n.startswith('fshr'):
                b = self.bits(t)
                left = n.startswith('fshl')
                sh = '(%s %% %d)' % (a[2], b)
                wide = 'unsigned __int128' if b == 64 else 'uint64_t'
                cat = '(((%s)%s << %d) | (%s)%s)' % (wide, a[0], b, wide, a[1])
                if left:
                    e = '(%s << %s) >> %d' % (cat, sh, b)
                else:
                    e = '%s >> %s' % (cat, sh)
                return as_(self.mask(e, t))
            if n.startswith('ctlz') or n.startswith('cttz') or n.startswith('ctpop'):
                return as_('verif_%s%d(%s)' % (n[:5].rstrip('.'), self.bits(t), a[0]))
            if re.match(r'(u|s)(add|sub|mul)\.with\.overflow', n):
                b = self.bits(args[0].ty)
                sg = n[0] == 's'; o_ = {'add': '+', 'sub': '-', 'mul': '*'}[n[1:4]]
                if sg:
                    x, y = self.sx(a[0], args[0].ty), self.sx(a[1], args[0].ty)
                    return ['{ __int128 w_ = (__int128)%s %s (__int128)%s; %s.f0 = (%s)w_; %s.f1 = (w_ != (__int128)%s); }' % (x, o_, y, R, self.cty(args[0].ty), R, self.sx(R + '.f0', args[0].ty))]
                return ['{ unsigned __int128 w_ = (unsigned __int128)%s %s (unsigned __int128)%s; %s.f0 = (%s)w_; %s.f1 = ((w_ >> %d) != 0)%s; }' % (a[0], o_, a[1], R, self.cty(args[0].ty), R, b, ' || (%s < %s)' % (a[0], a[1]) if o_ == '-' else '')]
            m_ = re.match(r'(umax|umin|smax|smin|abs)\.', n)
            if m_:
                k = m_.group(1)
                if k == 'abs':
                    return as_(self.mask('%s < 0 ? -%s : %s' % (self.sx(a[0], t), self.sx(a[0], t), self.sx(a[0], t)), t))
                x, y = (self.sx(a[0], t), self.sx(a[1], t)) if k[0] == 's' else (a[0], a[1])
                return as_('(%s %s %s ? %s : %s)' % (x, '>' if k.endswith('max') else '<', y, a[0], a[1]))
            m_ = re.match(r'(uadd|usub)\.sat\.', n)
            if m_:  # unsigned saturating add/sub (clang -O1 forms them from `a > b ? a - b : 0`)
                if m_.group(1) == 'usub':
                    return as_('(%s > %s ? %s : 0)' % (a[0], a[1], self.mask('%s - %s' % (a[0], a[1]), t)))
                s_ = self.mask('%s + %s' % (a[0], a[1]), t)
                return as_('(%s < %s ? %s : %s)' % (s_, a[0], self.mask('~(%s)0' % self.cty(t), t), s_))
            if n.startswith('fabs'): return as_('fabs(%s)' % a[0])
            if n.startswith('fmuladd'): return as_('(%s * %s + %s)' % (a[0], a[1], a[2]))
            if n.startswith('va_start'):
                last = self.f.params[-1]
                return ['va_start(*(va_list*)%s, %s);' % (a[0], 'v_' + san(last[1]))]
            if n.startswith('va_end'):
                return ['va_end(*(va_list*)%s);' % a[0]]
            if n.startswith('va_copy'):
                return ['va_copy(*(va_list*)%s, *(va_list*)%s);' % (a[0], a[1])]
            if n.startswith('objectsize'):
                return as_('(%s)-1' % self.cty(t))
            if n.startswith('stacksave'): return as_('0')
            if n.startswith('stackrestore'): return []
            raise TypeError('intrinsic ' + n)
        # exception runtime
        nm = name[1:] if name else None
        if nm == '__cxa_throw':
            ti = self.ti_name(args[1])
            code = ['verif_exc_active = 1; verif_exc_ptr = %s; verif_exc_type = %d;' % (a[0], self.tyid(ti))]
            if inv:
                return code + ['{ %s }' % self.unwind_to(ins['unwind'])]
            return code + ['return %s;' % self.retzero]
        if nm == '__cxa_rethrow':
            code = ['verif_exc_active = 1; verif_exc_ptr = verif_caught_ptr; verif_exc_type = verif_caught_type;']
            if inv:
                return code + ['{ %s }' % self.unwind_to(ins['unwind'])]
            return code + ['return %s;' % self.retzero]
        if nm == '__cxa_begin_catch':
            return ['verif_caught_ptr = %s; verif_caught_type = verif_exc_type;' % a[0]] + as_(a[0])
        if nm == '__cxa_end_catch':
            return post
        # generic call
        fty = ins['fty']
        if cal.kind == 'global' and name in self.m.funcs:
            f = self.m.funcs[name]
            callee = self.gname(name)
            if f.va or (fty and fty.va):
                pass
            # cast args to declared param types
            ca = []
            for i, x in enumerate(a):
                if i < len(f.params):
                    pt = self.cty(f.params[i][0]) if f.isdef else self.ext_cty(f.params[i][0])
                    ca.append('(%s)%s' % (pt, x) if not isinstance(self.resolve(f.params[i][0]), (StructT, ArrT)) else x)
                else:
                    ca.append(x)
            e = '%s(%s)' % (callee, ', '.join(ca))
            if not f.isdef and isinstance(self.resolve(ins['ty']), PtrT):
                e = '(%s)%s' % (self.cty(ins['ty']), e)
        else:
            # indirect
            pt = ', '.join(self.cty(x.ty) for x in args) or 'void'
            e = '((%s (*)(%s))%s)(%s)' % (self.cty(ins['ty']), pt, self.val(cal), ', '.join(a))
        out = as_(e) if not isinstance(self.resolve(ins['ty']), VoidT) else ['%s;' % e]
        if inv:
            return out + post
        nothrow = ins['nounwind'] or (nm in NOTHROW_EXT)
        if name in self.m.funcs and any('nounwind' in self.m.attrs.get(g, '') for g in self.m.funcs[name].attrgrps):
            nothrow = True
        if not nothrow:
            out.append('if (verif_exc_active) return %s;' % self.retzero)
        return out


def main():
    import argparse
    ap = argparse.ArgumentParser()
    ap.add_argument('ll'); ap.add_argument('-o', default='-'); ap.add_argument('--roots', default=''); ap.add_argument('--append', action='append', default=[])
    ap.add_argument('--cut', action='append', default=[], help='regex on mangled names: matching defined functions are treated as externals (X_<name>), to be provided by the harness; unprovided => assertion failure when reached')
    ap.add_argument('--provided', default='', help='file listing C names (X_...) defined elsewhere')
    ap.add_argument('--ptrdiff', action='store_true', help='emit sub(ptrtoint p, ptrtoint q) as a C pointer difference (opt-in, see emit_ins)')
    ap.add_argument('--union-fp-bytes', action='store_true', help='emit float/double members of LLVM union.* structs (and structs nested in them by value) as byte arrays (opt-in, see emit_struct_defs)')
    ap.add_argument('--flat-unions', action='store_true', help='emit integer members of LLVM union.* structs as byte arrays (opt-in, see emit_struct_defs)')
    ap.add_argument('--zero-allocas', action='store_true', help='declare every fixed-size alloca object zero-initialised (opt-in). CBMC constant-folds a load only when all bytes it covers are concrete; clang -O1 copies small structs as one i64, so ONE uninitialised member (struct pollfd::revents in Poll::add) makes the whole copied struct symbolic. Price, to be stated in spec.ASSUMPTIONS: behaviour that depends on reading uninitialised STACK memory is not explored (the model shows zeros / stale values)')
    ap.add_argument('--thread-br', action='store_true', help='jump-thread edges into blocks that only branch on a phi for which the edge supplies a constant (opt-in, see thread_target)')
    ap.add_argument('--report', default='', help='write JSON report (functions emitted, unmodelled externals)')
    a = ap.parse_args()
    m = parse_module(open(a.ll).read())
    roots = ['@' + r for r in a.roots.split(',') if r] or None
    cut_names = []
    for n, f in m.funcs.items():
        if f.isdef and any(re.search(c, n[1:].strip('"')) for c in a.cut):
            f.isdef = False; f.blocks = collections.OrderedDict(); cut_names.append(n[1:])
    e = Emit(m, roots)
    e.opt_ptrdiff = a.ptrdiff; e.opt_flat_unions = a.flat_unions; e.opt_union_fp_bytes = a.union_fp_bytes; e.opt_zero_allocas = a.zero_allocas; e.opt_thread_br = a.thread_br
    e.cut_names = cut_names
    e.append = a.append
    if a.provided:
        e.provided = set(open(a.provided).read().split())
    c = e.emit_module()
    if a.report:
        import json
        json.dump({'functions': e.emitted_funcs, 'unmodelled': e.unmodelled, 'cut': cut_names}, open(a.report, 'w'))
    if a.o == '-': print(c)
    else: open(a.o, 'w').write(c)


if __name__ == '__main__':
    main()
