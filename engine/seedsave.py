#!/usr/bin/env python3
"""seedsave.py <pid> <name> <seed_dir> <caught: yes|no|inconclusive> <by-what text> <needs text>
Copies patch.diff/demo.cc/README.txt into /verif/seeded/<pid>-<name>/ and writes meta.json."""
import json, os, shutil, sys
pid, name, sd, caught, by, needs = sys.argv[1:7]
dst = os.path.join(os.path.dirname(os.path.dirname(os.path.abspath(__file__))), 'seeded', '%s-%s' % (pid, name))
os.makedirs(dst, exist_ok=True)
for f in ('patch.diff', 'demo.cc', 'README.txt'):
    if os.path.exists(os.path.join(sd, f)):
        shutil.copy(os.path.join(sd, f), os.path.join(dst, f))
meta = {
    'property': pid, 'name': name, 'breaks': open(os.path.join(sd, 'README.txt')).read()[:1500] if os.path.exists(os.path.join(sd, 'README.txt')) else '',
    'needs_to_manifest': needs,
    'origin': 'written by an independent sub-agent that saw only the property text and a scratch worktree of /repo (nothing from /verif)',
    'confirmed_by_me': 'engine/seedtest.sh: scratch worktree; clean tree: demo exit 0; with patch: builds, ctest 14/14 pass, demo fails; '
                       'then `VERIF_REPO=<worktree with patch> python3 engine/run.py %s --tier quick`' % pid,
    'check_result': caught, 'detected_by': by,
}
json.dump(meta, open(os.path.join(dst, 'meta.json'), 'w'), indent=1)
print('saved', dst)
