#!/usr/bin/env python3
"""Driver: /repo working tree -> clang IR -> ir2c.py -> C -> CBMC, per property.

  python3 engine/run.py Cxx --tier quick|thorough [--only q1,q2] [--keep] [-j N]
  python3 engine/run.py Cxx --replay replay/Cxx-<query>.txt
  python3 engine/run.py --setup

Exit status: 0 = every query discharged (UNSAT within the stated bound, witness reachable, translation validated)
             1 = a counterexample was found AND reproduced against a native build of the real code
                 (prints "VIOLATION property=<id> replay=<path>")
             2 = inconclusive (timeout, memory cap, unwinding bound too small, unmodelled external reached,
                 non-reproducing counterexample, translation-validation mismatch); never reported as success.
See DESIGN.md section 1.
"""
import argparse, hashlib, importlib.util, json, os, re, resource, shutil, subprocess, sys, tempfile, threading, time

HERE = os.path.dirname(os.path.abspath(__file__))
VERIF = os.path.dirname(HERE)
REPO = os.environ.get('VERIF_REPO', '/repo')
PARTIAL_RUN = False
RT = os.path.join(HERE, 'rt')
SHIM = os.path.join(HERE, 'shim')
CLANG = 'clang++-14'
CXXFLAGS = ['-std=c++20', '-O1', '-fno-vectorize', '-fno-slp-vectorize', '-fno-unroll-loops', '-DPHOSG_VERIF',
            '-Wno-everything']
MEM_BUDGET_GB = int(os.environ.get('VERIF_MEM_GB', '48'))
NCPU = int(os.environ.get('VERIF_JOBS', str(os.cpu_count() or 8)))


def log(*a):
    print(*a, flush=True)


def sh(cmd, cwd=None, timeout=None, mem_gb=None, env=None, stdin=None):
    """run, return (rc, stdout, stderr, wall, maxrss_mb). rc=-9 on timeout."""
    def pre():
        os.setsid()
        if mem_gb:
            lim = int(mem_gb * (1 << 30))
            resource.setrlimit(resource.RLIMIT_AS, (lim, lim))
    t0 = time.time()
    p = subprocess.Popen(cmd, cwd=cwd, stdout=subprocess.PIPE, stderr=subprocess.PIPE, preexec_fn=pre, env=env,
                         stdin=subprocess.DEVNULL if stdin is None else stdin)
    try:
        out, err = p.communicate(timeout=timeout)
        rc = p.returncode
    except subprocess.TimeoutExpired:
        try:
            os.killpg(p.pid, 9)
        except ProcessLookupError:
            pass
        out, err = p.communicate()
        rc = -9
    ru = resource.getrusage(resource.RUSAGE_CHILDREN)
    return rc, out.decode('utf-8', 'replace'), err.decode('utf-8', 'replace'), time.time() - t0, ru.ru_maxrss // 1024


class Inconclusive(Exception):
    pass


def load_spec(pid):
    path = os.path.join(VERIF, 'props', pid, 'spec.py')
    sp = importlib.util.spec_from_file_location('spec_' + pid, path)
    mod = importlib.util.module_from_spec(sp)
    sp.loader.exec_module(mod)
    return mod


def scan_provided(files):
    """C names X_... that are *defined* in the given C files (runtime model, harnesses, stub files)."""
    names = set()
    pat = re.compile(r'^[A-Za-z_][\w\s\*]*?\b(?:STUB\((\w+)\)|(X_\w+))\s*\(', re.M)
    macro = re.compile(r'^(?:EXC_CTOR_CSTR|EXC_DTOR)\((\w+)\)', re.M)
    seen = set()
    work = list(files)
    while work:
        f = work.pop()
        if f in seen or not os.path.exists(f):
            continue
        seen.add(f)
        txt = open(f).read()
        for inc in re.findall(r'^\s*#\s*include\s+"([^"]+)"', txt, re.M):
            for d in (os.path.dirname(f), RT):
                work.append(os.path.join(d, inc))
        for m in pat.finditer(txt):
            # a definition, not a call: the match starts at column 0 with a type
            names.add('X_' + m.group(1) if m.group(1) else m.group(2))
        for m in re.finditer(r'(?:EXC_CTOR_CSTR|EXC_DTOR)\((\w+)\)', txt):
            names.add('X_' + m.group(1))
        for m in re.finditer(r'^(?:[\w\*]+\s+)+\**(X_\w+)\s*(?:=[^;]*)?;', txt, re.M):
            names.add(m.group(1))
    return names


class Unit:
    """one wrapper TU: IR, generated C, native objects"""

    def __init__(self, pid, name, cfg, pdir, work, harness_files):
        self.pid, self.name, self.cfg, self.pdir, self.work = pid, name, cfg, pdir, work
        self.harness_files = harness_files
        self.lock = threading.Lock()
        self.built = False
        self.real_built = False
        self.info = {}

    def path(self, x):
        return os.path.join(self.work, '%s.%s' % (self.name, x))

    def subst_inc(self):
        """opt-in unit key src_subst={'File.cc': [(regex, replacement, expected_count), ...]}: the listed phosg source files
        are copied into the work dir with the substitutions applied and that dir is put in front of $REPO/src on the include
        path of BOTH builds (clang IR and g++ real). Meant for ONE purpose: replacing an internal block-size constant that is
        not a macro (e.g. `static const ssize_t read_size = 16 * 1024;`) by a -D controlled one so that block-boundary logic
        is within the solver's reach. Every substitution is part of the claim (spec.BOUNDS/ASSUMPTIONS must state it); a
        pattern that does not match exactly expected_count times makes the unit inconclusive."""
        sub = self.cfg.get('src_subst')
        if not sub:
            return []
        d = self.path('subst')
        os.makedirs(d, exist_ok=True)
        for fn, rules in sub.items():
            txt = open(os.path.join(REPO, 'src', fn)).read()
            for pat, rep, cnt in rules:
                txt, n = re.subn(pat, rep, txt)
                if n not in (cnt if isinstance(cnt, (list, tuple)) else [cnt]):  # a list = counts allowed (unpatched / patched tree)
                    raise Inconclusive('src_subst %r on %s: %d matches, expected %s' % (pat, fn, n, cnt))
            with open(os.path.join(d, fn), 'w') as f:
                f.write(txt)
        return ['-I' + d]

    def build(self):
        with self.lock:
            if self.built:
                return
            cfg = self.cfg
            wrap = os.path.join(self.pdir, cfg['wrap'])
            inc = self.subst_inc() + ['-I' + os.path.join(REPO, 'src'), '-I' + RT]
            shim = ['-I' + SHIM] if cfg.get('shim') else []
            flags = CXXFLAGS + list(cfg.get('cxxflags', []))
            t0 = time.time()
            rc, out, err, _, _ = sh([CLANG] + flags + shim + inc + ['-S', '-emit-llvm', wrap, '-o', self.path('ll')])
            if rc != 0:
                raise Inconclusive('clang failed on %s:\n%s' % (wrap, err[-3000:]))
            ll = open(self.path('ll')).read()
            self.all_roots = sorted(set(re.findall(r'^define [^@]*@(w_\w+)\(', ll, re.M)))
            if not self.all_roots:
                raise Inconclusive('no w_* roots in ' + wrap)
            self.info = {'ir_lines': ll.count('\n'), 'clang_s': round(time.time() - t0, 2), 'functions': []}
            self.gens = {}
            self.built = True

    def gen(self, harness):
        """generated C for the wrappers one harness file uses (roots = the w_* names it mentions)"""
        self.build()
        with self.lock:
            g = self.gens.get(harness)
            if g is None:
                g = self.gens[harness] = {'lock': threading.Lock(), 'done': False}
        with g['lock']:
            if g['done']:
                if g.get('error'):
                    raise Inconclusive(g['error'])
                return g
            try:
                self._gen(harness, g)
            except Inconclusive as ex:
                g['error'] = str(ex); g['done'] = True
                raise
            g['done'] = True
            return g

    def _gen(self, harness, g):
        cfg = self.cfg
        hfile = os.path.join(self.pdir, harness)
        base = self.path('g_' + re.sub(r'\W', '_', harness))
        extra = [os.path.join(self.pdir, x) for x in cfg.get('extra_c', [])]
        htxt = open(hfile).read()
        roots = [r for r in self.all_roots if re.search(r'\b%s\b' % re.escape(r), htxt)]
        if not roots:
            raise Inconclusive('harness %s references no wrapper of unit %s' % (harness, self.name))
        prov = scan_provided([os.path.join(RT, 'rt_model.c'), hfile] + extra)
        open(base + '.prov', 'w').write('\n'.join(sorted(prov)))
        cmd = [sys.executable, os.path.join(HERE, 'ir2c.py'), self.path('ll'), '-o', base + '.c', '--roots', ','.join(roots),
               '--provided', base + '.prov', '--report', base + '.rep.json', '--append', os.path.join(RT, 'rt_model.c')]
        for e in extra:
            cmd += ['--append', e]
        for c in cfg.get('cuts', []):
            cmd += ['--cut', c]
        cmd += list(cfg.get('ir2c_flags', []))  # opt-in translator options, e.g. ['--ptrdiff', '--flat-unions']
        t0 = time.time()
        rc, out, err, _, _ = sh(cmd)
        if rc != 0:
            raise Inconclusive('ir2c failed for %s/%s:\n%s' % (self.name, harness, err[-3000:]))
        rep = json.load(open(base + '.rep.json'))
        g.update(c=base + '.c', o=base + '.o', gb=base + '.gb', roots=roots, functions=rep['functions'], unmodelled=rep['unmodelled'], cut=rep.get('cut', []))
        nb = cfg.get('per_harness', {}).get(harness, {}).get('new_block', cfg.get('new_block', 64))
        gdefs = (['-DVERIF_NEW_BLOCK=%d' % nb] if nb else []) + ['-D' + x for x in cfg.get('per_harness', {}).get(harness, {}).get('gen_defs', cfg.get('gen_defs', []))]
        rc, out, err, _, _ = sh(['gcc', '-O1', '-w', '-DVERIF_NATIVE_GEN', '-I' + RT] + gdefs + ['-c', g['c'], '-o', g['o']])
        if rc != 0:
            raise Inconclusive('gcc failed on generated C for %s/%s:\n%s' % (self.name, harness, err[-3000:]))
        rc, out, err, _, _ = sh(['goto-cc', '-DVERIF_CBMC', '-I' + RT] + gdefs + ['-c', g['c'], '-o', g['gb']])
        if rc != 0:
            raise Inconclusive('goto-cc failed on generated C for %s/%s:\n%s' % (self.name, harness, (out + err)[-3000:]))
        with self.lock:
            self.info['functions'] = sorted(set(self.info['functions']) | set(rep['functions']))
            self.info.setdefault('harness', {})[harness] = {'roots': roots, 'functions': len(rep['functions']), 'unmodelled_externals': rep['unmodelled'], 'cut_functions': rep.get('cut', []),
                                                            'c_lines': open(g['c']).read().count('\n'), 'gen_s': round(time.time() - t0, 2)}

    def build_real(self, rsan='address'):
        """mode 3: the real code, real libstdc++, ASan+UBSan (query option real_san='thread': ThreadSanitizer instead, for
        queries whose counterexample is a data race between real threads; returns the object file)"""
        if rsan == 'thread':
            return self.build_real_tsan()
        with self.lock:
            if self.real_built:
                return self.path('real.o')
            cfg = self.cfg
            wrap = os.path.join(self.pdir, cfg['wrap'])
            inc = self.subst_inc() + ['-I' + os.path.join(REPO, 'src'), '-I' + RT]
            flags = ['-std=c++20', '-O1', '-g', '-w', '-DPHOSG_VERIF', '-DVERIF_NATIVE_REAL', '-fsanitize=address,undefined',
                     '-fno-sanitize-recover=undefined', '-fno-omit-frame-pointer', '-ffunction-sections', '-fdata-sections'] + list(cfg.get('cxxflags', []))
            rc, out, err, _, _ = sh(['g++'] + flags + inc + ['-c', wrap, '-o', self.path('real.o')])
            if rc != 0:
                raise Inconclusive('g++ failed on %s:\n%s' % (wrap, err[-3000:]))
            self.real_built = True
            return self.path('real.o')

    def build_real_tsan(self):
        with self.lock:
            if getattr(self, 'real_tsan_built', False):
                return self.path('real.tsan.o')
            cfg = self.cfg
            wrap = os.path.join(self.pdir, cfg['wrap'])
            inc = self.subst_inc() + ['-I' + os.path.join(REPO, 'src'), '-I' + RT]
            flags = ['-std=c++20', '-O1', '-g', '-w', '-DPHOSG_VERIF', '-DVERIF_NATIVE_REAL'] + TSAN + ['-fno-omit-frame-pointer',
                     '-ffunction-sections', '-fdata-sections'] + list(cfg.get('cxxflags', []))
            rc, out, err, _, _ = sh(['g++'] + flags + inc + ['-c', wrap, '-o', self.path('real.tsan.o')])
            if rc != 0:
                raise Inconclusive('g++ failed on %s:\n%s' % (wrap, err[-3000:]))
            self.real_tsan_built = True
            return self.path('real.tsan.o')


class Query:
    def __init__(self, pid, d):
        self.pid = pid
        self.d = d
        self.name = d['name']
        self.res = {'name': self.name, 'desc': d.get('desc', ''), 'bounds': d.get('bounds', ''), 'unit': d['unit'],
                    'harness': d['harness'], 'defs': d.get('defs', {}), 'unwind': d.get('unwind')}


def defs_flags(defs):
    return ['-D%s=%s' % (k, v) if v is not None else '-D%s' % k for k, v in sorted(defs.items())]


def build_native(unit, q, work, real):
    """link harness + native driver against generated C (real=False) or the real code (real=True)"""
    tag = hashlib.md5((q.name + str(real)).encode()).hexdigest()[:10]
    exe = os.path.join(work, 'n_%s_%s' % ('real' if real else 'gen', tag))
    hfile = os.path.join(unit.pdir, q.d['harness'])
    mode = ['-DVERIF_NATIVE_REAL'] if real else ['-DVERIF_NATIVE_GEN']
    san = ['-fsanitize=address,undefined', '-fno-sanitize-recover=undefined', '-g'] if real else []
    if real and q.d.get('real_san') == 'thread':
        san = TSAN + ['-g']
    ho = exe + '.h.o'
    mo = exe + '.m.o'
    rc, out, err, _, _ = sh(['gcc', '-O1', '-w'] + mode + san + ['-I' + RT, '-I' + unit.pdir] + defs_flags(q.d.get('defs', {})) +
                            ['-c', hfile, '-o', ho])
    if rc != 0:
        raise Inconclusive('gcc failed on harness %s:\n%s' % (hfile, err[-3000:]))
    rc, out, err, _, _ = sh(['gcc', '-O1', '-w'] + mode + san + ['-I' + RT, '-c', os.path.join(RT, 'native_main.c'), '-o', mo])
    if rc != 0:
        raise Inconclusive('gcc failed on native_main.c:\n' + err[-3000:])
    if real:
        ro = unit.build_real(q.d.get('real_san', 'address'))
        cmd = ['g++'] + san + ['-Wl,--gc-sections', ho, mo, ro, '-o', exe, '-lz', '-lpthread', '-lm']
    else:
        cmd = ['gcc', ho, mo, unit.gen(q.d['harness'])['o'], '-o', exe, '-lm']
    rc, out, err, _, _ = sh(cmd)
    if rc != 0:
        raise Inconclusive('link failed (%s, %s):\n%s' % (q.name, 'real' if real else 'generated', err[-3000:]))
    return exe


TSAN = ['-fsanitize=thread']  # query option real_san='thread' (a ThreadSanitizer report makes the run exit 66 = failed)
NATIVE_ENV = dict(os.environ, ASAN_OPTIONS='detect_leaks=1:abort_on_error=0:exitcode=1', UBSAN_OPTIONS='print_stacktrace=0')


def translation_validation(unit, q, work, seed, runs):
    """same harness, same input streams: generated C vs real code must produce the same trace"""
    eg = build_native(unit, q, work, real=False)
    er = build_native(unit, q, work, real=True)
    a = sh([eg, '--seed', str(seed), '--runs', str(runs)], timeout=300, env=NATIVE_ENV)
    b = sh([er, '--seed', str(seed), '--runs', str(runs)], timeout=300, env=NATIVE_ENV)
    if a[0] < 0 or b[0] < 0:
        raise Inconclusive('translation validation timed out for ' + q.name)
    if a[1] != b[1]:
        la, lb = a[1].split('\n'), b[1].split('\n')
        i = next((k for k in range(min(len(la), len(lb))) if la[k] != lb[k]), min(len(la), len(lb)))
        r = max((k for k in range(i + 1) if k < len(la) and la[k].startswith('R ')), default=0)
        raise Inconclusive('TRANSLATION VALIDATION MISMATCH in %s near line %d (run marker %r): generated=%r real=%r\nreal stderr: %s' %
                           (q.name, i, la[r] if r < len(la) else '', la[i:i + 3], lb[i:i + 3], b[2][-1500:]))
    nruns = a[1].count('\nEND') + a[1].count('assume-false')
    complete = a[1].count('\nEND')
    native_fail = (a[0] != 0)
    return {'runs': runs, 'completed': complete, 'assume_false': a[1].count('assume-false'), 'mismatches': 0,
            'native_assert_failures': native_fail}


def parse_cbmc_json(txt):
    try:
        data = json.loads(txt)
    except Exception:
        # cbmc may be killed mid-output
        return None
    res = None
    msgs = []
    for o in data:
        if isinstance(o, dict):
            if 'result' in o:
                res = o['result']
            if o.get('messageType') in ('ERROR',):
                msgs.append(o.get('messageText', ''))
            if 'cProverStatus' in o:
                msgs.append('status=' + o['cProverStatus'])
    return res, msgs


EXTRA_INPUT_VECTORS = {}   # id(primary vector) -> alternative vector recovered from the nondet return values


def extract_inputs(trace):
    """Input vector of a counterexample. Primary source: the verif_in[] log written by in_u64(). SMT back ends (z3/cvc5) may
    leave that property-irrelevant log unconstrained (zeros) or slice it away, so a second candidate is built from the return
    values of nondet_u64() (in_u64() is its only caller): the last return value seen before each log entry. The replay tries
    the log first, then the alternative."""
    vals, alt = {}, {}
    n = None
    last_ret = None
    rets = []
    for st in trace:
        if st.get('stepType') != 'assignment':
            continue
        lhs = st.get('lhs', '')
        v = st.get('value', {})
        if 'binary' not in v:
            continue
        if lhs == 'return_value_nondet_u64':
            last_ret = int(v['binary'], 2)
            rets.append(last_ret)
            continue
        m = re.fullmatch(r'verif_in\[(\d+)l?l?\]', lhs)
        if m:
            vals[int(m.group(1))] = int(v['binary'], 2)
            if last_ret is not None:
                alt[int(m.group(1))] = last_ret
        elif lhs == 'verif_in_n':
            n = int(v['binary'], 2)
    if n is None:
        n = (max(vals) + 1) if vals else 0
    if not vals:
        # log sliced away: the ordered return values are the vector (the trace may list each call twice: initialisation 0, value)
        if rets and len(rets) % 2 == 0 and all(x == 0 for x in rets[0::2]):
            rets = rets[1::2]
        return rets[:512]
    log_vec = [vals.get(i, 0) for i in range(min(n, 512))]
    alt_vec = [alt.get(i, vals.get(i, 0)) for i in range(min(n, 512))]
    if alt_vec != log_vec:
        EXTRA_INPUT_VECTORS[id(log_vec)] = alt_vec
    return log_vec


def run_cbmc(unit, q, work, tier):
    d = q.d
    tag = hashlib.md5(q.name.encode()).hexdigest()[:10]
    hfile = os.path.join(unit.pdir, d['harness'])
    hgb = os.path.join(work, 'h_%s.gb' % tag)
    qgb = os.path.join(work, 'q_%s.gb' % tag)
    rc, out, err, _, _ = sh(['goto-cc', '-DVERIF_CBMC', '-I' + RT, '-I' + unit.pdir] + defs_flags(d.get('defs', {})) + ['-c', hfile, '-o', hgb])
    if rc != 0:
        raise Inconclusive('goto-cc failed on harness %s:\n%s' % (hfile, (out + err)[-3000:]))
    rc, out, err, _, _ = sh(['goto-cc', unit.gen(d['harness'])['gb'], hgb, '-o', qgb])
    if rc != 0:
        raise Inconclusive('goto-cc link failed for %s:\n%s' % (q.name, (out + err)[-3000:]))
    cmd = ['cbmc', qgb, '--unwind', str(d.get('unwind', 8)), '--unwinding-assertions', '--drop-unused-functions',
           '--no-malloc-may-fail', '--no-undefined-shift-check', '--no-signed-overflow-check', '--json-ui', '--trace',
           '--object-bits', str(d.get('object_bits', 10))]
    if d.get('unwindset'):
        cmd += ['--unwindset', d['unwindset']]
    be = d.get('backend', '')
    env = dict(os.environ)
    if be == 'cadical':
        cmd += ['--sat-solver', 'cadical']
    elif be == 'kissat':
        cmd += ['--external-sat-solver', 'kissat']
    elif be == 'cvc5':
        cmd += ['--cvc5', '--slice-formula']
        env['PATH'] = os.path.join(HERE, 'bin') + ':' + env['PATH']
    elif be == 'z3':
        cmd += ['--z3']
    cmd += list(d.get('flags', []))
    # spec timeouts were measured on a quiet machine; the check must not turn inconclusive merely because the machine is busy
    timeout = int(d.get('timeout', 300) * float(os.environ.get('VERIF_TIMEOUT_SCALE', '3')))
    mem = d.get('mem_gb', 8)
    rc, out, err, wall, rss = sh(cmd, timeout=timeout, mem_gb=mem, env=env)
    q.res.update(solver_s=round(wall, 2), backend=be or 'minisat(default)', cmd=' '.join(cmd[2:]))
    if rc == -9:
        raise Inconclusive('%s: timeout after %ds' % (q.name, timeout))
    parsed = parse_cbmc_json(out)
    if parsed is None or parsed[0] is None:
        raise Inconclusive('%s: cbmc gave no result (rc=%d, mem cap %sGB?) %s %s' % (q.name, rc, mem, out[-800:], err[-800:]))
    results, msgs = parsed
    undecided = [r for r in results if r.get('status') not in ('SUCCESS', 'FAILURE')]
    fails = [r for r in results if r.get('status') == 'FAILURE']
    q.res['properties_checked'] = len(results)
    wit = [r for r in fails if 'WITNESS' in r.get('description', '')]
    unw = [r for r in fails if 'unwinding assertion' in r.get('description', '')]
    unm = [r for r in fails if 'UNMODELLED' in r.get('description', '')]
    bnd = [r for r in fails if 'BOUND:' in r.get('description', '')]
    other = [r for r in fails if r not in wit and r not in unw and r not in unm and r not in bnd]
    q.res['witness_reachable'] = bool(wit)
    if unw and not other:
        raise Inconclusive('%s: unwinding bound too small (%s)' % (q.name, '; '.join(sorted(set(r.get('property', '') for r in unw))[:5])))
    if unm and not other:
        raise Inconclusive('%s: unmodelled external reached' % q.name)
    if bnd and not other:
        raise Inconclusive('%s: a stated model bound is too small (%s)' % (q.name, bnd[0].get('description')))
    if undecided and not other:
        raise Inconclusive('%s: solver returned no verdict for %d properties (status %s; memory cap %sGB or solver error) %s' % (
            q.name, len(undecided), undecided[0].get('status'), mem, '; '.join(msgs[-3:])))
    if other:
        # candidate counterexample(s): prefer harness assertions ("H: ...")
        other.sort(key=lambda r: (0 if r.get('description', '').startswith('H: ') else 1))
        cex = []
        for r in other[:6]:
            tr = r.get('trace')
            cex.append({'property': r.get('property'), 'description': r.get('description'),
                        'source': (r.get('sourceLocation') or {}).get('function', ''),
                        'inputs': extract_inputs(tr) if tr else None})
        return 'cex', cex
    if not wit:
        raise Inconclusive('%s: VACUOUS - the end of the harness is unreachable (assumptions unsatisfiable?)' % q.name)
    return 'ok', None


def replay_inputs(unit, q, work, inputs, outpath, header):
    with open(outpath, 'w') as f:
        f.write('# %s\n' % header)
        f.write('\n'.join('0x%x' % v for v in inputs) + '\n')
    er = build_native(unit, q, work, real=True)
    rc, out, err, _, _ = sh([er, '--replay', outpath], timeout=120, env=NATIVE_ENV)
    reproduced = rc != 0
    return reproduced, out, err


def write_evidence(pid, tier, seed, spec, qs, units, wall, violations, inconclusive, tv_total, known_lines):
    done = [q.res for q in qs if q.res.get('verdict') == 'holds']
    samples = []
    for q in qs[:6]:
        samples.append({k: q.res.get(k) for k in ('name', 'desc', 'bounds', 'unwind', 'defs', 'verdict', 'solver_s', 'backend')})
    for q in qs:
        if q.res.get('verdict') not in ('holds',) and len(samples) < 14:
            samples.append({k: q.res.get(k) for k in ('name', 'desc', 'bounds', 'verdict', 'counterexample', 'detail')})
    funcs = sorted(set(f for u in units.values() if u.built for f in u.info.get('functions', [])))
    ev = {
        'property_id': pid, 'tier': tier, 'seed': seed, 'level': 'model_checking',
        'coverage': {
            'evaluations': len(qs),
            'distinct_nontrivial': sum(1 for q in qs if q.res.get('verdict') == 'holds' and q.res.get('witness_reachable')),
            'rule': 'one evaluation = one CBMC query (harness x case-split cell) over the C translated from the current /repo LLVM IR; '
                    'inputs are solver variables inside the stated bounds. A query counts as distinct+nontrivial when it was discharged '
                    '(all assertions incl. unwinding assertions UNSAT) AND its reachability witness (assert(0) at the end of the '
                    'harness) was found satisfiable in the same run.',
            'samples': samples,
            'queries_discharged': len(done),
            'queries_total': len(qs),
            'inconclusive': inconclusive,
            'known_findings_reported': known_lines,
            'solver_s_total': round(sum(q.res.get('solver_s', 0) for q in qs), 1),
            'functions_encoded_count': len(funcs),
            'functions_encoded': funcs[:400],
            'units': {n: {k: v for k, v in u.info.items() if k != 'functions'} for n, u in units.items() if u.built},
            'bounds': getattr(spec, 'BOUNDS', ''),
            'stubs': getattr(spec, 'STUBS', []),
            'outside_claim': getattr(spec, 'OUTSIDE', []),
            'translation_validation': tv_total,
            'all_queries': [{k: q.res.get(k) for k in ('name', 'verdict', 'solver_s', 'properties_checked', 'unwind', 'bounds')} for q in qs],
            'exhaustive': False,
        },
        'assumptions': list(getattr(spec, 'ASSUMPTIONS', [])) + [
            'ir2c.py translator and the runtime model engine/rt/rt_model.c (validated each run by executing generated C and real code on the same input streams)',
            'clang-14 -O1 IR semantics = g++ build semantics for the encoded functions (x86-64 little-endian)',
            'CBMC 6.11 and its SAT back end are sound; heap allocation never fails'],
        'wall_s': round(wall, 1),
        'violations': violations,
    }
    # the committed evidence file describes a FULL run against /repo; partial (--only) runs and runs against a scratch worktree
    # (VERIF_REPO) write their evidence to a scratch directory instead
    evdir = os.path.join(VERIF, 'evidence') if (not PARTIAL_RUN and REPO == '/repo') else '/var/tmp/verif/evidence_partial'
    os.makedirs(evdir, exist_ok=True)
    with open(os.path.join(evdir, pid + '.json'), 'w') as f:
        json.dump(ev, f, indent=1)


def load_known():
    p = os.path.join(VERIF, 'known_findings.json')
    if not os.path.exists(p):
        return []
    return json.load(open(p)).get('findings', [])


def main():
    ap = argparse.ArgumentParser()
    ap.add_argument('pid', nargs='?')
    ap.add_argument('--tier', default=os.environ.get('VERIF_TIER', 'quick'))
    ap.add_argument('--only', default='')
    ap.add_argument('--keep', action='store_true')
    ap.add_argument('--setup', action='store_true')
    ap.add_argument('--replay', default='')
    ap.add_argument('--no-tv', action='store_true')
    ap.add_argument('-j', type=int, default=NCPU)
    a = ap.parse_args()
    if a.setup:
        ok = True
        for t in (CLANG, 'cbmc', 'goto-cc', 'gcc', 'g++'):
            if not shutil.which(t):
                log('missing tool', t); ok = False
        sys.exit(0 if ok else 1)
    pid = a.pid
    seed = int(os.environ.get('VERIF_SEED', '1'))
    tier = a.tier if a.tier in ('quick', 'thorough') else 'quick'
    spec = load_spec(pid)
    pdir = os.path.join(VERIF, 'props', pid)
    os.makedirs('/var/tmp/verif', exist_ok=True)
    work = tempfile.mkdtemp(prefix='%s_' % pid, dir='/var/tmp/verif')
    t0 = time.time()
    rc_final = 2
    try:
        allq = [Query(pid, d) for d in spec.queries('thorough' if a.replay else tier)]
        if a.only:
            global PARTIAL_RUN
            PARTIAL_RUN = True
            sel = a.only.split(',')
            allq = [q for q in allq if any(re.fullmatch(s, q.name) for s in sel)]
        harn_by_unit = {}
        for q in allq:
            harn_by_unit.setdefault(q.d['unit'], set()).add(os.path.join(pdir, q.d['harness']))
        # all harnesses of a unit (any tier) contribute to the provided set so that the generated C is the same
        for d in spec.queries('thorough'):
            harn_by_unit.setdefault(d['unit'], set()).add(os.path.join(pdir, d['harness']))
        units = {n: Unit(pid, n, cfg, pdir, work, sorted(harn_by_unit.get(n, []))) for n, cfg in spec.UNITS.items()}

        if a.replay:
            hdr = open(a.replay).readline()
            m = re.search(r'query=(\S+)', hdr)
            q = next(x for x in allq if x.name == m.group(1))
            u = units[q.d['unit']]
            vals = [int(t, 0) for t in open(a.replay).read().split('\n') if t and not t.startswith('#')]
            tmp = os.path.join(work, 'replay.txt')
            rep, out, err = replay_inputs(u, q, work, vals, tmp, hdr.strip('# \n'))
            log(out[-4000:]); log(err[-4000:])
            log('REPRODUCED' if rep else 'NOT REPRODUCED')
            rc_final = 1 if rep else 0
            return

        known = [k for k in load_known() if k.get('property') == pid and k.get('status') == 'open']
        lock = threading.Lock()
        mem_free = [MEM_BUDGET_GB]
        cpu_free = [a.j]
        cond = threading.Condition()
        violations = []
        inconclusive = []
        known_lines = []
        tv_total = {'harness_builds': 0, 'runs': 0, 'completed': 0, 'mismatches': 0}

        def work_one(q):
            u = units[q.d['unit']]
            try:
                u.gen(q.d['harness'])
                tv_error = None
                if not a.no_tv and q.d.get('tv', True):
                    try:
                        tv = translation_validation(u, q, work, seed, q.d.get('tv_runs', 60))
                        q.res['translation_validation'] = tv
                        with lock:
                            tv_total['harness_builds'] += 1; tv_total['runs'] += tv['runs']; tv_total['completed'] += tv['completed']
                    except Inconclusive as ex:
                        # a mismatch does not stop the solver: a counterexample that replays against the real code stands on its
                        # own; but a PASS from a translation that disagrees with the real code is never reported as success.
                        tv_error = ex
                        with lock:
                            tv_total['mismatches'] += 1
                kind, cex = run_cbmc(u, q, work, tier)
                if kind == 'ok' and tv_error is not None:
                    raise tv_error
                if kind == 'ok':
                    q.res['verdict'] = 'holds'
                    if q.d.get('expect_fail'):
                        q.res['verdict'] = 'finding-not-reproduced'
                        q.res['detail'] = 'known-finding probe unexpectedly passed'
                    return
                # counterexample: replay against the real code
                confirmed = None
                for c in cex:
                    if c['inputs'] is None:
                        continue
                    rp = os.path.join(VERIF, 'replay', '%s-%s.txt' % (pid, q.name))
                    rep, out, err = replay_inputs(u, q, work, c['inputs'], rp, 'property=%s query=%s cbmc: %s' % (pid, q.name, c['description']))
                    alt = EXTRA_INPUT_VECTORS.get(id(c['inputs']))
                    if not rep and alt:
                        rep, out, err = replay_inputs(u, q, work, alt, rp, 'property=%s query=%s cbmc: %s' % (pid, q.name, c['description']))
                        if rep:
                            c['inputs'] = alt
                    c['replay_output'] = (out[-600:] + err[-1200:])
                    if rep:
                        confirmed = (c, rp); break
                if confirmed:
                    c, rp = confirmed
                    q.res['counterexample'] = {'cbmc_property': c['description'], 'inputs': c['inputs'][:64], 'replay': rp,
                                               'native_output': c['replay_output'][-800:]}
                    if q.d.get('expect_fail'):
                        q.res['verdict'] = 'known-finding'
                        with lock:
                            known_lines.append('KNOWN-FINDING: property=%s %s' % (pid, q.d['expect_fail']))
                    else:
                        q.res['verdict'] = 'VIOLATION'
                        with lock:
                            violations.append((q.name, rp, c['description']))
                else:
                    q.res['verdict'] = 'inconclusive'
                    q.res['detail'] = 'counterexample did not reproduce natively: ' + '; '.join('%s' % c['description'] for c in cex[:3])
                    q.res['counterexample'] = {'cbmc': [dict(description=c['description'], inputs=(c['inputs'] or [])[:32]) for c in cex[:3]]}
                    with lock:
                        inconclusive.append(q.name + ': ' + q.res['detail'])
            except Inconclusive as ex:
                q.res['verdict'] = 'inconclusive'; q.res['detail'] = str(ex)[:3000]
                with lock:
                    inconclusive.append(str(ex)[:3000])
            except Exception as ex:
                import traceback
                q.res['verdict'] = 'inconclusive'; q.res['detail'] = 'driver error: ' + traceback.format_exc()[-2000:]
                with lock:
                    inconclusive.append(q.res['detail'])

        def runner(q):
            need = q.d.get('mem_gb', 8)
            with cond:
                while mem_free[0] < need or cpu_free[0] < 1:
                    cond.wait()
                mem_free[0] -= need; cpu_free[0] -= 1
            try:
                work_one(q)
                log('  [%s] %-40s %-14s %6.1fs' % (pid, q.name, q.res.get('verdict'), q.res.get('solver_s', 0)))
            finally:
                with cond:
                    mem_free[0] += need; cpu_free[0] += 1
                    cond.notify_all()

        # known-finding probes are ordinary queries flagged expect_fail (spec adds them for open findings)
        allq.sort(key=lambda q: -q.d.get('cost', q.d.get('timeout', 300)))
        threads = [threading.Thread(target=runner, args=(q,)) for q in allq]
        for t in threads:
            t.start()
        for t in threads:
            t.join()
        wall = time.time() - t0
        write_evidence(pid, tier, seed, spec, allq, units, wall, len(violations), inconclusive, tv_total, known_lines)
        for l in known_lines:
            log(l)
        if violations:
            for name, rp, desc in violations:
                log('VIOLATION property=%s replay=%s' % (pid, rp))
                log('  query=%s cbmc=%s' % (name, desc))
            rc_final = 1
        elif inconclusive:
            for x in inconclusive:
                log('INCONCLUSIVE: ' + x)
            rc_final = 2
        else:
            log('%s %s: %d queries discharged in %.1fs' % (pid, tier, len(allq), wall))
            rc_final = 0
    except Exception:
        import traceback
        traceback.print_exc()
        rc_final = 2
    finally:
        if not a.keep:
            shutil.rmtree(work, ignore_errors=True)
        else:
            log('kept', work)
        sys.exit(rc_final)


if __name__ == '__main__':
    main()
