#!/usr/bin/env python3
"""Regenerate /verif/MANIFEST.json from props/*/spec.py (claimed checks) and docs/not_applicable.json."""
import importlib.util, json, os, sys

HERE = os.path.dirname(os.path.abspath(__file__))
VERIF = os.path.dirname(HERE)


def load(pid):
    sp = importlib.util.spec_from_file_location('spec_' + pid, os.path.join(VERIF, 'props', pid, 'spec.py'))
    m = importlib.util.module_from_spec(sp)
    sp.loader.exec_module(m)
    return m


def main():
    props = [json.loads(l) for l in open(os.path.join(VERIF, 'properties.jsonl')) if l.strip()]
    na_path = os.path.join(VERIF, 'docs', 'not_applicable.json')
    na = json.load(open(na_path)) if os.path.exists(na_path) else {}
    hooks_path = os.path.join(VERIF, 'docs', 'hooks.json')
    hook_commits = json.load(open(hooks_path)).get('source_commits', []) if os.path.exists(hooks_path) else []
    claimed_path = os.path.join(VERIF, 'docs', 'claimed.json')
    claimed = set(json.load(open(claimed_path))) if os.path.exists(claimed_path) else None
    checks, not_app, served = [], [], []
    for p in props:
        pid = p['id']
        sp = os.path.join(VERIF, 'props', pid, 'spec.py')
        if claimed is not None and pid not in claimed and pid not in na:
            not_app.append({'property_id': pid, 'reason': 'check under construction: not yet validated on the unchanged tree, so not claimed at this commit'})
            continue
        if pid in na or not os.path.exists(sp):
            not_app.append({'property_id': pid, 'reason': na.get(pid, 'no check built (yet) for this property')})
            continue
        m = load(pid)
        if getattr(m, 'DISABLED', None):
            not_app.append({'property_id': pid, 'reason': m.DISABLED})
            continue
        served.append(pid)
        bounds = getattr(m, 'BOUNDS', '')
        outside = getattr(m, 'OUTSIDE', [])
        text = getattr(m, 'LEVEL_TEXT', None) or (
            'Bounded symbolic model checking of the real code: the functions behind this property are compiled from /repo to LLVM IR, '
            'translated to C (engine/ir2c.py) and CBMC decides the harness assertions (reference model written independently in the '
            'harness) for EVERY input inside the stated bounds, with unwinding assertions and a reachability witness per query; '
            'counterexamples are replayed against a native ASan/UBSan build of the real code before being reported. Bounds: ' + str(bounds))
        note = getattr(m, 'LEVEL_NOTE', None) or (
            'Trusted: clang-14 IR semantics, ir2c.py + runtime model (cross-checked every run by executing generated C and the real '
            'build on identical input streams), CBMC 6.11 + SAT back end, stubs listed in evidence. Outside the claim: ' +
            ('; '.join(outside) if outside else 'inputs beyond the stated bounds'))
        checks.append({
            'property_id': pid,
            'quick_cmd': 'python3 engine/run.py %s --tier quick' % pid,
            'thorough_cmd': 'python3 engine/run.py %s --tier thorough' % pid,
            'evidence_file': '/verif/evidence/%s.json' % pid,
            'replay_cmd_template': 'python3 engine/run.py %s --replay {path}' % pid,
            'engine': 'ir2c-cbmc',
            'level_claimed': {'category': 'model_checking', 'text': text[:1800], 'design_ref': 'DESIGN.md section 2, ' + pid},
            'level_note': note[:1800],
            'technique': getattr(m, 'TECHNIQUE', 'bounded symbolic model checking (CBMC/SAT) of C translated from the LLVM IR of the real code'),
        })
    man = {
        'version': 1,
        'setup_cmd': 'python3 engine/run.py --setup',
        'hooks': {
            'guard': 'PHOSG_VERIF',
            'enable': 'engine/run.py compiles every wrapper TU (props/*/wrap.cc, which #include the /repo sources) with -DPHOSG_VERIF',
            'baseline_off_cmd': 'cmake --build /repo/_build && ctest --test-dir /repo/_build -j8 --timeout 900',
            'source_commits': hook_commits,
            'add_only': True,
        },
        'engines': [{'name': 'ir2c-cbmc', 'path': 'engine/run.py', 'serves_properties': served,
                     'kind_free_text': 'clang++-14 -O1 LLVM IR of the real phosg code -> own IR-to-C translator (engine/ir2c.py) -> CBMC 6.11 '
                                       'bounded model checking; native replay + translation validation against a g++ ASan/UBSan build'}],
        'checks': checks,
        'not_applicable': not_app,
        'notes': 'Exit codes of every check: 0 = all queries discharged; 1 = VIOLATION (solver counterexample reproduced against the real '
                 'build); 2 = inconclusive (never reported as success). Known findings: /verif/known_findings.json.',
    }
    with open(os.path.join(VERIF, 'MANIFEST.json'), 'w') as f:
        json.dump(man, f, indent=1)
    print('checks:', [c['property_id'] for c in checks])
    print('not_applicable:', [n['property_id'] for n in not_app])


if __name__ == '__main__':
    main()
