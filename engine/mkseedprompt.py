#!/usr/bin/env python3
import json, subprocess, sys
tmpl = open('/verif/docs/seed_prompt.txt').read()
props = {json.loads(l)['id']: json.loads(l) for l in open('/verif/properties.jsonl')}
for pid in sys.argv[1:]:
    p = props[pid]
    subprocess.run(['git', '-C', '/repo', 'worktree', 'add', '--detach', '/tmp/seed_' + pid, 'HEAD', '-q'])
    s = tmpl.format(WT='/tmp/seed_' + pid, PID=pid, TITLE=p['title'], STATEMENT=p['statement'], QUANT=p['quantifier']['text'],
                    FILES=', '.join(p['anchors']['files']), N=3)
    open('/tmp/seed_prompt_%s.txt' % pid, 'w').write(s)
    print('prepared', pid)
