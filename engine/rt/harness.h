/* Harness API. A harness is ONE C file defining `void harness(void)`; it is compiled three ways:
 *   (1) __CPROVER__            : cbmc, together with the C generated from /repo's LLVM IR  -> the verdict
 *   (2) VERIF_NATIVE_GEN       : gcc, together with the same generated C                  -> translation validation
 *   (3) VERIF_NATIVE_REAL      : gcc, linked to a g++ build of the real wrapper TU        -> translation validation + replay
 * Inputs come only through in_*(); in (1) they are solver variables that are also logged to verif_in[] (so that a
 * counterexample trace yields the exact input vector), in (2)/(3) they come from a replay vector or a seeded PRNG.
 */
#ifndef VERIF_HARNESS_H
#define VERIF_HARNESS_H
#include <stdint.h>
#include <stddef.h>
#include <string.h>

#define VERIF_IN_MAX 512

#ifdef VERIF_CBMC
uint64_t nondet_u64(void);
extern uint64_t verif_in[VERIF_IN_MAX];
extern uint32_t verif_in_n;
static inline uint64_t in_u64(void) {
  uint64_t v = nondet_u64();
  if (verif_in_n < VERIF_IN_MAX) verif_in[verif_in_n] = v;
  verif_in_n++;
  return v;
}
#define ASSERT(c, msg) __CPROVER_assert((c), "H: " msg)
#define ASSUME(c) __CPROVER_assume(c)
#define OBS(x) ((void)0)
static inline uint64_t in_range(uint64_t lo, uint64_t hi) {
  uint64_t v = in_u64();
  __CPROVER_assume(v >= lo && v <= hi);
  return v;
}
#else
uint64_t in_u64(void);
uint64_t in_range(uint64_t lo, uint64_t hi);
void verif_native_assert(int c, const char* msg);
void verif_native_assume(int c);
void verif_obs(uint64_t v);
#define ASSERT(c, msg) verif_native_assert(!!(c), msg)
#define ASSUME(c) verif_native_assume(!!(c))
#define OBS(x) verif_obs((uint64_t)(x))
#endif

static inline uint8_t in_u8(void) { return (uint8_t)in_u64(); }
static inline uint16_t in_u16(void) { return (uint16_t)in_u64(); }
static inline uint32_t in_u32(void) { return (uint32_t)in_u64(); }
static inline int64_t in_i64(void) { return (int64_t)in_u64(); }
static inline int32_t in_i32(void) { return (int32_t)in_u64(); }
static inline uint8_t in_bool(void) { return (uint8_t)(in_u64() & 1); }
/* signed range */
static inline int64_t in_irange(int64_t lo, int64_t hi) {
  return (int64_t)(in_range(0, (uint64_t)(hi - lo))) + lo;
}
static inline void in_bytes(uint8_t* p, size_t n) {
  for (size_t i = 0; i < n; i++) p[i] = in_u8();
}

/* Environment stubs: external symbol `name` is called X_name from generated C, `name` from the real build. */
#ifdef VERIF_NATIVE_REAL
#define STUB(n) n
#else
#define STUB(n) X_##n
#endif

/* wrappers (C++ side) may call these */
void verif_assert(int c);
uint8_t nondet_u8(void);

void harness(void);
#endif
