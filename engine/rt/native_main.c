/* Native driver for modes (2) and (3): feeds harness() from a replay vector or a seeded PRNG and prints a trace.
 *   prog --replay FILE         one run, inputs = the u64 values listed in FILE (decimal or 0x hex, whitespace separated);
 *                              values past the end of the vector are 0
 *   prog --seed S --runs N     N runs (each in a forked child), PRNG seeded with S+i
 * Trace lines:  R <i> / A <k> <0|1> <msg> / O <value> / assume-false / END / CRASH <status>
 * Exit status: 0 = no assertion failed in any run, 1 = some assertion failed (or the child crashed / sanitizer fired).
 */
#include <stdio.h>
#include <stdlib.h>
#include <stdint.h>
#include <string.h>
#include <unistd.h>
#include <sys/wait.h>
#include <sys/syscall.h>
#include "harness.h"

static uint64_t* rep;
static size_t rep_n, rep_i;
int verif_replay_mode; /* 1 = inputs come from a replay vector */
#define replay_mode verif_replay_mode
static uint64_t rng;
static int n_assert, failed;

static uint64_t next_rand(void) {
  rng ^= rng << 13;
  rng ^= rng >> 7;
  rng ^= rng << 17;
  return rng;
}

uint64_t in_u64(void) {
  if (replay_mode) {
    uint64_t v = rep_i < rep_n ? rep[rep_i] : 0;
    rep_i++;
    return v;
  }
  uint64_t r = next_rand();
  switch (r & 7) {
    case 0:
    case 1:
    case 2:
      return (r >> 8) & 7; /* small */
    case 3:
      return (r >> 8) & 0xFF;
    case 4: { /* boundary values */
      static const uint64_t b[] = {0, 1, 0x7F, 0x80, 0xFF, 0x100, 0x7FFF, 0x8000, 0xFFFF, 0x7FFFFFFF, 0x80000000ULL, 0xFFFFFFFFULL,
          0x7FFFFFFFFFFFULL, 0x800000000000ULL, 0x7FFFFFFFFFFFFFFFULL, 0x8000000000000000ULL, 0xFFFFFFFFFFFFFFFFULL, 0xFFFFFFFFFFFFFFFEULL};
      return b[(r >> 8) % (sizeof(b) / sizeof(b[0]))];
    }
    case 5:
      return 0 - ((r >> 8) & 7);
    default:
      return next_rand();
  }
}

uint64_t in_range(uint64_t lo, uint64_t hi) {
  if (replay_mode) {
    uint64_t v = in_u64();
    verif_native_assume(v >= lo && v <= hi);
    return v;
  }
  uint64_t r = next_rand();
  uint64_t span = hi - lo + 1;
  return span ? lo + r % span : r;
}

void verif_native_assert(int c, const char* msg) {
  printf("A %d %d %s\n", n_assert++, c, msg);
  if (!c) failed = 1;
}

void verif_native_assume(int c) {
  if (!c) {
    printf("assume-false\n");
    fflush(stdout);
    _exit(failed ? 1 : 0);
  }
}

void verif_obs(uint64_t v) { printf("O %llu\n", (unsigned long long)v); }

#ifdef VERIF_NATIVE_REAL
void verif_assert(int c) { verif_native_assert(c, "wrapper/shim assertion"); }
#else
extern int verif_exc_active;
#endif

static int one_run(void) {
  n_assert = 0;
  failed = 0;
  harness();
#ifndef VERIF_NATIVE_REAL
  if (verif_exc_active) verif_native_assert(0, "no exception escapes the wrapper");
#endif
  printf("END\n");
  fflush(stdout);
  return failed;
}

int main(int argc, char** argv) {
  uint64_t seed = 1;
  int runs = 1;
  const char* rf = 0;
  for (int i = 1; i < argc; i++) {
    if (!strcmp(argv[i], "--seed") && i + 1 < argc) seed = strtoull(argv[++i], 0, 0);
    else if (!strcmp(argv[i], "--runs") && i + 1 < argc) runs = atoi(argv[++i]);
    else if (!strcmp(argv[i], "--replay") && i + 1 < argc) rf = argv[++i];
  }
  setvbuf(stdout, 0, _IOFBF, 1 << 16);
  if (rf) {
    FILE* f = fopen(rf, "r");
    if (!f) { perror(rf); return 3; }
    rep = malloc(sizeof(uint64_t) * (VERIF_IN_MAX + 1));
    char tok[64];
    while (rep_n < VERIF_IN_MAX && fscanf(f, "%63s", tok) == 1) {
      if (tok[0] == '#') { int ch; while ((ch = fgetc(f)) != EOF && ch != '\n') {} continue; }
      rep[rep_n++] = strtoull(tok, 0, 0);
    }
    fclose(f);
    replay_mode = 1;
    printf("R 0\n");
    return one_run();
  }
  int any = 0;
  for (int i = 0; i < runs; i++) {
    printf("R %d\n", i);
    fflush(stdout);
    long p = syscall(SYS_fork); /* raw syscalls: a harness may stub fork/waitpid */
    if (p == 0) {
      rng = (seed + (uint64_t)i) * 0x9E3779B97F4A7C15ULL + 0x1234567ULL;
      if (!rng) rng = 1;
      next_rand(); next_rand();
      _exit(one_run());
    }
    int st = 0;
    syscall(SYS_wait4, p, &st, 0, 0);
    if (!WIFEXITED(st)) { printf("CRASH %d\n", st); any = 1; }
    else if (WEXITSTATUS(st) != 0) any = 1;
  }
  return any;
}
