/* Runtime declarations shared by the generated C (modes 1 and 2). */
#ifndef VERIF_RT_H
#define VERIF_RT_H
#include <stdint.h>
#include <stdlib.h>
#include <stdarg.h>
#ifndef VERIF_CBMC
#include <stdio.h>
/* native execution of the generated C (translation validation): CBMC primitives become ordinary code */
void verif_native_assert(int c, const char* msg);
void verif_native_assume(int c);
#define __CPROVER_assume(x) verif_native_assume(!!(x))
#define __CPROVER_assert(c, m) verif_native_assert(!!(c), m)
#define __CPROVER_atomic_begin()
#define __CPROVER_atomic_end()
#endif
typedef void (*verif_fn_t)(void);
extern int verif_exc_active;
extern uint8_t* verif_exc_ptr;
extern int verif_exc_type;
extern uint8_t* verif_caught_ptr;
extern int verif_caught_type;
void verif_unreachable(void);
void verif_trap(void);
void verif_unmodelled(const char* name);
static inline uint64_t verif_ctlz64(uint64_t x) { uint64_t n = 0; for (int i = 63; i >= 0; i--) { if ((x >> i) & 1) break; n++; } return n; }
static inline uint32_t verif_ctlz32(uint32_t x) { uint32_t n = 0; for (int i = 31; i >= 0; i--) { if ((x >> i) & 1) break; n++; } return n; }
static inline uint16_t verif_ctlz16(uint16_t x) { uint16_t n = 0; for (int i = 15; i >= 0; i--) { if ((x >> i) & 1) break; n++; } return n; }
static inline uint8_t verif_ctlz8(uint8_t x) { uint8_t n = 0; for (int i = 7; i >= 0; i--) { if ((x >> i) & 1) break; n++; } return n; }
static inline uint64_t verif_cttz64(uint64_t x) { uint64_t n = 0; for (int i = 0; i < 64; i++) { if ((x >> i) & 1) break; n++; } return n; }
static inline uint32_t verif_cttz32(uint32_t x) { uint32_t n = 0; for (int i = 0; i < 32; i++) { if ((x >> i) & 1) break; n++; } return n; }
static inline uint64_t verif_ctpop64(uint64_t x) { uint64_t n = 0; for (int i = 0; i < 64; i++) n += (x >> i) & 1; return n; }
static inline uint32_t verif_ctpop32(uint32_t x) { uint32_t n = 0; for (int i = 0; i < 32; i++) n += (x >> i) & 1; return n; }
#endif
