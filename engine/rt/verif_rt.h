/* Runtime declarations shared by the generated C (modes 1 and 2). */
#ifndef VERIF_RT_H
#define VERIF_RT_H
#include <stdint.h>
#include <stdlib.h>
#include <stdarg.h>
#ifndef VERIF_CBMC
#include <stdio.h>
/* native execution of the generated C (translation validation): CBMC primitives become ordinary code */
void verif_native_assert(int c, const char* msg);
void verif_native_assume(int c);
#define __CPROVER_assume(x) verif_native_assume(!!(x))
#define __CPROVER_assert(c, m) do { if (!(c)) verif_native_assert(0, m); } while (0) /* model-internal checks are silent unless they fail */
#define __CPROVER_atomic_begin()
#define __CPROVER_atomic_end()
#endif
typedef void (*verif_fn_t)(void);
extern int verif_exc_active;
extern uint8_t* verif_exc_ptr;
extern int verif_exc_type;
extern uint8_t* verif_caught_ptr;
extern int verif_caught_type;
void verif_unreachable(void);
void verif_trap(void);
void verif_unmodelled(const char* name);
uint8_t* verif_std_exc_what(uint8_t* self); /* model vtable entries of external std exception classes (rt_model.c) */
void verif_std_exc_dtor(uint8_t* self);
uint8_t* verif_atomic_addr(uint8_t* p); /* every atomic access goes through this (identity unless the sequentialiser is on) */
static inline uint64_t verif_ctlz64(uint64_t x) { uint64_t n = 0; for (int i = 63; i >= 0; i--) { if ((x >> i) & 1) break; n++; } return n; }
static inline uint32_t verif_ctlz32(uint32_t x) { uint32_t n = 0; for (int i = 31; i >= 0; i--) { if ((x >> i) & 1) break; n++; } return n; }
static inline uint16_t verif_ctlz16(uint16_t x) { uint16_t n = 0; for (int i = 15; i >= 0; i--) { if ((x >> i) & 1) break; n++; } return n; }
static inline uint8_t verif_ctlz8(uint8_t x) { uint8_t n = 0; for (int i = 7; i >= 0; i--) { if ((x >> i) & 1) break; n++; } return n; }
static inline uint64_t verif_cttz64(uint64_t x) { uint64_t n = 0; for (int i = 0; i < 64; i++) { if ((x >> i) & 1) break; n++; } return n; }
static inline uint32_t verif_cttz32(uint32_t x) { uint32_t n = 0; for (int i = 0; i < 32; i++) { if ((x >> i) & 1) break; n++; } return n; }
static inline uint64_t verif_ctpop64(uint64_t x) { uint64_t n = 0; for (int i = 0; i < 64; i++) n += (x >> i) & 1; return n; }
static inline uint32_t verif_ctpop32(uint32_t x) { uint32_t n = 0; for (int i = 0; i < 32; i++) n += (x >> i) & 1; return n; }
/* ir2c --ptrdiff: value of (uint64_t)p - (uint64_t)q, written so that CBMC folds it for pointers into one object */
#ifdef VERIF_CBMC
#define verif_ptrdiff(p, q) (__CPROVER_same_object((p), (q)) ? (uint64_t)(__CPROVER_POINTER_OFFSET(p) - __CPROVER_POINTER_OFFSET(q)) : (uint64_t)(p) - (uint64_t)(q))
#else
#define verif_ptrdiff(p, q) ((uint64_t)(p) - (uint64_t)(q))
#endif
/* memory intrinsics. With a constant length the C library form is used (CBMC expands it per byte at fixed offsets);
 * with a symbolic length a byte loop bounded by --unwind is far cheaper for CBMC than its array-theory memcpy model. */
#include <string.h>
static inline void verif_memcpy_loop(uint8_t* d, const uint8_t* s, uint64_t n) { for (uint64_t i = 0; i < n; i++) d[i] = s[i]; }
static inline void verif_memmove_loop(uint8_t* d, const uint8_t* s, uint64_t n) {
#ifdef VERIF_CBMC
  if (__CPROVER_POINTER_OBJECT(d) == __CPROVER_POINTER_OBJECT(s) && __CPROVER_POINTER_OFFSET(d) > __CPROVER_POINTER_OFFSET(s))
#else
  if ((uintptr_t)d > (uintptr_t)s)
#endif
  { for (uint64_t i = n; i > 0; i--) d[i - 1] = s[i - 1]; }
  else { for (uint64_t i = 0; i < n; i++) d[i] = s[i]; }
}
/* opt-in (unit gen_defs 'VERIF_MEMSET_BULK_N=16384'): a fill whose length equals this one constant at run time (e.g. the
 * std::string(16384, 0) blocks of read_all, where the length reaches memset through a reference and is not a C constant)
 * is done by one constant-size memset instead of N loop iterations. Same semantics as the loop. */
static inline void verif_memset_loop(uint8_t* d, uint8_t c, uint64_t n) {
#ifdef VERIF_MEMSET_BULK_N
  if (n == VERIF_MEMSET_BULK_N) { memset(d, c, VERIF_MEMSET_BULK_N); return; }
#endif
  for (uint64_t i = 0; i < n; i++) d[i] = c;
}
#ifdef VERIF_BUILTIN_MEM
#define verif_memcpy(d, s, n) do { if (n) memcpy((d), (s), (n)); } while (0)
#define verif_memmove(d, s, n) do { if (n) memmove((d), (s), (n)); } while (0)
#define verif_memset(d, c, n) do { if (n) memset((d), (c), (n)); } while (0)
#elif defined(VERIF_MEM_WORDS)
/* opt-in (unit gen_defs 'VERIF_MEM_WORDS'): a CONSTANT length that is a multiple of 8 and at most 64 is copied / filled as
 * uint64_t words (all loads before all stores, so it is also a memmove). Same bytes as memcpy/memset; for CBMC a word-sized
 * scalar (a pointer member of a std::vector/std::string moved as part of a 24/32-byte struct, a zero-initialised {0,0,0}) then
 * stays ONE assignment of a constant/pointer instead of a byte_update of the whole object that symex cannot fold. Used with
 * ir2c --union-words and VERIF_NEW_U64. Other lengths behave as in the default branch. */
static inline void verif_mem_words(uint8_t* d, const uint8_t* s, uint64_t n) {
  uint64_t* dw = (uint64_t*)d; const uint64_t* sw = (const uint64_t*)s;
  uint64_t t0 = n > 0 ? sw[0] : 0, t1 = n > 8 ? sw[1] : 0, t2 = n > 16 ? sw[2] : 0, t3 = n > 24 ? sw[3] : 0;
  uint64_t t4 = n > 32 ? sw[4] : 0, t5 = n > 40 ? sw[5] : 0, t6 = n > 48 ? sw[6] : 0, t7 = n > 56 ? sw[7] : 0;
  if (n > 0) dw[0] = t0; if (n > 8) dw[1] = t1; if (n > 16) dw[2] = t2; if (n > 24) dw[3] = t3;
  if (n > 32) dw[4] = t4; if (n > 40) dw[5] = t5; if (n > 48) dw[6] = t6; if (n > 56) dw[7] = t7;
}
static inline void verif_memset_words(uint8_t* d, uint8_t c, uint64_t n) {
  uint64_t* dw = (uint64_t*)d; uint64_t v = 0x0101010101010101ULL * c;
  if (n > 0) dw[0] = v; if (n > 8) dw[1] = v; if (n > 16) dw[2] = v; if (n > 24) dw[3] = v;
  if (n > 32) dw[4] = v; if (n > 40) dw[5] = v; if (n > 48) dw[6] = v; if (n > 56) dw[7] = v;
}
#define VERIF_WORDS_OK(n) ((n) != 0 && (n) % 8 == 0 && (n) <= 64)
#define verif_memcpy(d, s, n) (__builtin_constant_p(n) ? (VERIF_WORDS_OK(n) ? verif_mem_words((d), (s), (n)) : (void)((n) ? memcpy((d), (s), (n)) : 0)) : verif_memcpy_loop((d), (s), (n)))
#define verif_memmove(d, s, n) (__builtin_constant_p(n) ? (VERIF_WORDS_OK(n) ? verif_mem_words((d), (s), (n)) : (void)((n) ? memmove((d), (s), (n)) : 0)) : verif_memmove_loop((d), (s), (n)))
#define verif_memset(d, c, n) (__builtin_constant_p(n) ? (VERIF_WORDS_OK(n) ? verif_memset_words((d), (uint8_t)(c), (n)) : (void)((n) ? memset((d), (c), (n)) : 0)) : verif_memset_loop((d), (uint8_t)(c), (n)))
#else
#define verif_memcpy(d, s, n) (__builtin_constant_p(n) ? (void)((n) ? memcpy((d), (s), (n)) : 0) : verif_memcpy_loop((d), (s), (n)))
#define verif_memmove(d, s, n) (__builtin_constant_p(n) ? (void)((n) ? memmove((d), (s), (n)) : 0) : verif_memmove_loop((d), (s), (n)))
#define verif_memset(d, c, n) (__builtin_constant_p(n) ? (void)((n) ? memset((d), (c), (n)) : 0) : verif_memset_loop((d), (uint8_t)(c), (n)))
#endif
#endif
