// Helpers for wrapper TUs (C++ side). Wrappers expose a C ABI, catch every exception and return a code, so the same
// harness runs against the generated C and against the real build.
#pragma once
#include <stdint.h>
#include <stddef.h>
#include <string.h>
#include <new>
#include <stdexcept>
#include <string>
#define W_OUT_OF_RANGE (-1)
#define W_INVALID_ARGUMENT (-2)
#define W_LENGTH_ERROR (-3)
#define W_LOGIC_ERROR (-4)
#define W_RUNTIME_ERROR (-5)
#define W_BAD_ALLOC (-6)
#define W_STD_EXCEPTION (-7)
#define W_UNKNOWN_EXCEPTION (-8)
#define W_CAPACITY (-100) /* result does not fit the harness buffer: the harness treats it as a failed bound */
#define W_CATCH_ALL                                                  \
  catch (const std::out_of_range&) { return W_OUT_OF_RANGE; }        \
  catch (const std::invalid_argument&) { return W_INVALID_ARGUMENT; } \
  catch (const std::length_error&) { return W_LENGTH_ERROR; }        \
  catch (const std::logic_error&) { return W_LOGIC_ERROR; }          \
  catch (const std::runtime_error&) { return W_RUNTIME_ERROR; }      \
  catch (const std::bad_alloc&) { return W_BAD_ALLOC; }              \
  catch (const std::exception&) { return W_STD_EXCEPTION; }          \
  catch (...) { return W_UNKNOWN_EXCEPTION; }
#define WEXPORT extern "C" __attribute__((noinline, used))
extern "C" void verif_assert(int c);
static inline int64_t w_copy_out(const std::string& s, uint8_t* out, size_t cap) {
  if (s.size() > cap) return W_CAPACITY;
  if (s.size()) memcpy(out, s.data(), s.size());
  return static_cast<int64_t>(s.size());
}
