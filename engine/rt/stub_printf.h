/* Exact mini-model of the printf family for the formats phosg's byte-escapers and small helpers use: literals, %%, %c, %s,
 * hexadecimal %[0][width|*][hh|h|l|ll|z]X / x (digits nibble-wise, no division) and decimal %[0][width][l|ll|z]d / u / i for
 * magnitudes below 10^10 (digits by repeated subtraction, no division; larger values are a reported BOUND failure).
 * Any other conversion (floating point, %o, %p, precision ...) is NOT modelled: reaching one is an assertion failure
 * ("UNMODELLED printf conversion"), never a guess. vasprintf is defined in every build mode (it is exact); snprintf and
 * vsnprintf only for the generated-C modes (the native real build runs libc's). Include from a harness file.
 * Part of the claim wherever it is used. */
#ifndef VERIF_STUB_PRINTF_H
#define VERIF_STUB_PRINTF_H
#include <stdarg.h>
#include <stdlib.h>
#include "harness.h"
#ifndef VERIF_PRINTF_CAP
#define VERIF_PRINTF_CAP 24
#endif
/* formats into buf (at most cap-1 characters + NUL, C99 snprintf semantics); returns the would-be length */
static unsigned verif_fmt_core(char* buf, uint64_t cap, const char* fmt, va_list va) {
  unsigned n = 0;
#define PUTC(c) do { if ((uint64_t)n + 1 < cap) buf[n] = (char)(c); n++; } while (0)
  for (unsigned i = 0; fmt[i]; i++) {
    if (fmt[i] != '%') { PUTC(fmt[i]); continue; }
    i++;
    if (fmt[i] == '%') { PUTC('%'); continue; }
    int zero = 0; unsigned width = 0; int len = 0; /* len: -2 hh, -1 h, 0 int, 1 l, 2 ll */
    if (fmt[i] == '0') { zero = 1; i++; }
    while (fmt[i] >= '0' && fmt[i] <= '9') { width = width * 10 + (unsigned)(fmt[i] - '0'); i++; }
    if (fmt[i] == '*') { int w = va_arg(va, int); width = w > 0 ? (unsigned)w : 0; i++; } /* "%0*lX": width from an int argument (non-negative) */
    if (fmt[i] == 'h') { len = -1; i++; if (fmt[i] == 'h') { len = -2; i++; } }
    else if (fmt[i] == 'l') { len = 1; i++; if (fmt[i] == 'l') { len = 2; i++; } }
    else if (fmt[i] == 'z') { len = 1; i++; }
    char cv = fmt[i];
    if (cv == 'c') { int c = va_arg(va, int); PUTC(c); }
    else if (cv == 's') { const char* s = va_arg(va, const char*); for (unsigned k = 0; s[k]; k++) PUTC(s[k]); }
    else if (cv == 'X' || cv == 'x') {
      uint64_t v;
      if (len >= 1) v = va_arg(va, uint64_t); else v = va_arg(va, unsigned int);
      if (len == -2) v &= 0xFF; else if (len == -1) v &= 0xFFFF;
      unsigned nd = 1;
      for (unsigned k = 1; k < 16; k++) if ((v >> (4 * k)) != 0) nd = k + 1;
      unsigned maxd = len >= 1 ? 16 : (len == -2 ? 2 : (len == -1 ? 4 : 8));
      if (width >= maxd) {
        /* the field is always exactly `width` characters: emit it position by position so that the output length stays a
         * constant for the solver (pad or digit decided per position) */
        for (unsigned k = width; k > 0; k--) {
          unsigned d = k <= 16 ? (unsigned)((v >> (4 * (k - 1))) & 0xF) : 0;
          if (k > nd) PUTC(zero ? '0' : ' ');
          else PUTC(d < 10 ? '0' + d : (cv == 'X' ? 'A' : 'a') + (d - 10));
        }
      } else {
        for (unsigned k = nd; k < width; k++) PUTC(zero ? '0' : ' ');
        for (unsigned k = nd; k > 0; k--) { unsigned d = (unsigned)((v >> (4 * (k - 1))) & 0xF); PUTC(d < 10 ? '0' + d : (cv == 'X' ? 'A' : 'a') + (d - 10)); }
      }
    } else if ((cv == 'd' || cv == 'i' || cv == 'u') && len >= 0) {
      uint64_t mag; int neg = 0;
      if (cv == 'u') { mag = (len >= 1) ? va_arg(va, uint64_t) : (uint64_t)va_arg(va, unsigned int); }
      else { int64_t sv = (len >= 1) ? va_arg(va, int64_t) : (int64_t)va_arg(va, int); neg = sv < 0; mag = neg ? (uint64_t)0 - (uint64_t)sv : (uint64_t)sv; }
      ASSERT(mag < 10000000000ULL, "BOUND: decimal printf model covers magnitudes below 10^10");
      ASSUME(mag < 10000000000ULL);
      static const uint64_t p10[10] = {1000000000ULL, 100000000ULL, 10000000ULL, 1000000ULL, 100000ULL, 10000ULL, 1000ULL, 100ULL, 10ULL, 1ULL};
      uint8_t dig[10]; unsigned first = 9;
      for (unsigned k = 0; k < 10; k++) { uint8_t d = 0; for (unsigned j = 0; j < 9; j++) if (mag >= p10[k]) { mag -= p10[k]; d++; } dig[k] = d; }
      for (unsigned k = 0; k < 9; k++) if (dig[8 - k]) first = 8 - k; /* index of the most significant non-zero digit (9 if none above units) */
      unsigned nd = 10 - first + (neg ? 1 : 0);
      if (!zero) for (unsigned k = nd; k < width; k++) PUTC(' ');
      if (neg) PUTC('-');
      if (zero) for (unsigned k = nd; k < width; k++) PUTC('0');
      for (unsigned k = 0; k < 10; k++) if (k >= first) PUTC('0' + dig[k]);
    } else {
      ASSERT(0, "UNMODELLED printf conversion");
      ASSUME(0);
    }
  }
  if (cap) buf[((uint64_t)n < cap - 1) ? n : cap - 1] = 0;
  return n;
#undef PUTC
}

#ifdef VERIF_NATIVE_REAL
int vasprintf(char** outp, const char* fmt, va_list va_in) {
  va_list va;
  va_copy(va, va_in);
#else
uint32_t X_vasprintf(uint8_t* outp_, uint8_t* fmt_, uint8_t* va_) {
  char** outp = (char**)outp_;
  const char* fmt = (const char*)fmt_;
  va_list va;
  va_copy(va, *(va_list*)va_);
#endif
  char* buf = (char*)malloc(VERIF_PRINTF_CAP);
#ifdef VERIF_CBMC
  __CPROVER_assume(buf != 0);
#endif
  unsigned n = verif_fmt_core(buf, VERIF_PRINTF_CAP, fmt, va);
  ASSERT(n < VERIF_PRINTF_CAP, "printf model capacity (bound)");
  *outp = buf;
  va_end(va);
  return (int)n;
}

#ifndef VERIF_NATIVE_REAL
uint32_t X_snprintf(uint8_t* buf, uint64_t size, uint8_t* fmt, ...) {
  va_list va;
  va_start(va, fmt);
  unsigned n = verif_fmt_core((char*)buf, size, (const char*)fmt, va);
  va_end(va);
  return n;
}
uint32_t X_vsnprintf(uint8_t* buf, uint64_t size, uint8_t* fmt, uint8_t* va_) {
  va_list va;
  va_copy(va, *(va_list*)va_);
  unsigned n = verif_fmt_core((char*)buf, size, (const char*)fmt, va);
  va_end(va);
  return n;
}
#endif
#endif
