/* Exact mini-model of vasprintf for the formats phosg's byte-escapers use: literals, %%, %c, %s, and hexadecimal
 * conversions %[0][width|*][hh|h|l|ll|z]X / x. Hex digits are produced nibble-wise (no division). Any other conversion
 * (decimal, float) is NOT modelled: reaching one is an assertion failure ("UNMODELLED printf conversion"), never a guess.
 * Include from a harness file. Part of the claim wherever it is used. */
#ifndef VERIF_STUB_PRINTF_H
#define VERIF_STUB_PRINTF_H
#include <stdarg.h>
#include <stdlib.h>
#include "harness.h"
#ifndef VERIF_PRINTF_CAP
#define VERIF_PRINTF_CAP 24
#endif
#ifdef VERIF_NATIVE_REAL
int vasprintf(char** outp, const char* fmt, va_list va_in) {
  va_list va;
  va_copy(va, va_in);
#else
uint32_t X_vasprintf(uint8_t* outp_, uint8_t* fmt_, uint8_t* va_) {
  char** outp = (char**)outp_;
  const char* fmt = (const char*)fmt_;
  va_list va;
  va_copy(va, *(va_list*)va_);
#endif
  char* buf = (char*)malloc(VERIF_PRINTF_CAP);
#ifdef VERIF_CBMC
  __CPROVER_assume(buf != 0);
#endif
  unsigned n = 0;
#define PUTC(c) do { ASSERT(n + 1 < VERIF_PRINTF_CAP, "printf model capacity (bound)"); buf[n++] = (char)(c); } while (0)
  for (unsigned i = 0; fmt[i]; i++) {
    if (fmt[i] != '%') { PUTC(fmt[i]); continue; }
    i++;
    if (fmt[i] == '%') { PUTC('%'); continue; }
    int zero = 0; unsigned width = 0; int len = 0; /* len: -2 hh, -1 h, 0 int, 1 l, 2 ll */
    if (fmt[i] == '0') { zero = 1; i++; }
    while (fmt[i] >= '0' && fmt[i] <= '9') { width = width * 10 + (unsigned)(fmt[i] - '0'); i++; }
    if (fmt[i] == '*') { int w = va_arg(va, int); width = w > 0 ? (unsigned)w : 0; i++; } /* "%0*lX": width from an int argument (non-negative) */
    if (fmt[i] == 'h') { len = -1; i++; if (fmt[i] == 'h') { len = -2; i++; } }
    else if (fmt[i] == 'l') { len = 1; i++; if (fmt[i] == 'l') { len = 2; i++; } }
    else if (fmt[i] == 'z') { len = 1; i++; }
    char cv = fmt[i];
    if (cv == 'c') { int c = va_arg(va, int); PUTC(c); }
    else if (cv == 's') { const char* s = va_arg(va, const char*); for (unsigned k = 0; s[k]; k++) PUTC(s[k]); }
    else if (cv == 'X' || cv == 'x') {
      uint64_t v;
      if (len >= 1) v = va_arg(va, uint64_t); else v = va_arg(va, unsigned int);
      if (len == -2) v &= 0xFF; else if (len == -1) v &= 0xFFFF;
      unsigned nd = 1;
      for (unsigned k = 1; k < 16; k++) if ((v >> (4 * k)) != 0) nd = k + 1;
      for (unsigned k = nd; k < width; k++) PUTC(zero ? '0' : ' ');
      for (unsigned k = nd; k > 0; k--) { unsigned d = (unsigned)((v >> (4 * (k - 1))) & 0xF); PUTC(d < 10 ? '0' + d : (cv == 'X' ? 'A' : 'a') + (d - 10)); }
    } else {
      ASSERT(0, "UNMODELLED printf conversion");
      ASSUME(0);
    }
  }
  buf[n] = 0;
  *outp = buf;
  va_end(va);
  return (int)n;
#undef PUTC
}
#endif
