/* ---- runtime model appended to the generated C (same TU, modes 1 and 2) ----
 * Every function here stands for a libstdc++/libc symbol the real code calls; each is part of the claim.
 * TID_* macros (exception type ids) are emitted by ir2c.py just above this text. */
#include <string.h>
int verif_exc_active; uint8_t* verif_exc_ptr; int verif_exc_type; uint8_t* verif_caught_ptr; int verif_caught_type;
#ifdef VERIF_CBMC
uint64_t verif_in[512]; uint32_t verif_in_n;
void harness(void);
int main(void) {
  harness();
  __CPROVER_assert(!verif_exc_active, "H: no exception escapes the wrapper");
  __CPROVER_assert(0, "WITNESS"); /* reachability witness: must FAIL, otherwise the query was vacuous */
  return 0;
}
#endif
void verif_unreachable(void) { __CPROVER_assert(0, "llvm unreachable reached"); __CPROVER_assume(0); }
void verif_trap(void) { __CPROVER_assert(0, "llvm.trap reached"); __CPROVER_assume(0); }
void verif_unmodelled(const char* name) { (void)name; __CPROVER_assert(0, "UNMODELLED external reached"); __CPROVER_assume(0); }
void X_verif_assert(uint32_t c) { __CPROVER_assert(c, "H: wrapper/shim assertion"); }

/* heap: allocation never fails (allocation failure is outside every claim) */
#if defined(VERIF_NEW_BLOCK) && defined(VERIF_NEW_POOL)
/* opt-in (unit gen_defs=['VERIF_NEW_POOL=k'], k <= 16): deterministic bump allocator. The i-th operator new call of a run
 * returns the i-th static block, so two symbolic-execution paths that performed the same number of allocations agree on
 * every heap pointer (with CBMC's malloc each path gets its own object and every later heap access is a case split over
 * them). Blocks are separate objects (bounds are still checked per block) and are never reused; operator delete checks
 * "came from operator new, not deleted twice". NOT detected in this mode: access to a block after operator delete.
 * More than k allocations / a request above the block size = reported bound failure. */
#define VERIF_POOL_BLK(i) static uint8_t verif_blk##i[VERIF_NEW_BLOCK];
VERIF_POOL_BLK(0) VERIF_POOL_BLK(1) VERIF_POOL_BLK(2) VERIF_POOL_BLK(3) VERIF_POOL_BLK(4) VERIF_POOL_BLK(5) VERIF_POOL_BLK(6) VERIF_POOL_BLK(7)
VERIF_POOL_BLK(8) VERIF_POOL_BLK(9) VERIF_POOL_BLK(10) VERIF_POOL_BLK(11) VERIF_POOL_BLK(12) VERIF_POOL_BLK(13) VERIF_POOL_BLK(14) VERIF_POOL_BLK(15)
static uint8_t* const verif_blks[16] = {verif_blk0, verif_blk1, verif_blk2, verif_blk3, verif_blk4, verif_blk5, verif_blk6, verif_blk7,
                                        verif_blk8, verif_blk9, verif_blk10, verif_blk11, verif_blk12, verif_blk13, verif_blk14, verif_blk15};
static uint32_t verif_pool_n; static uint8_t verif_pool_freed[16];
static uint8_t* verif_new(uint64_t n) {
  __CPROVER_assert(n <= VERIF_NEW_BLOCK, "BOUND: operator new request exceeds VERIF_NEW_BLOCK"); __CPROVER_assume(n <= VERIF_NEW_BLOCK);
  __CPROVER_assert(verif_pool_n < VERIF_NEW_POOL && verif_pool_n < 16, "BOUND: more operator new calls than VERIF_NEW_POOL"); __CPROVER_assume(verif_pool_n < VERIF_NEW_POOL && verif_pool_n < 16);
  return verif_blks[verif_pool_n++];
}
static void verif_delete(uint8_t* p) {
  if (!p) return;
  int found = 0;
#define VERIF_POOL_DEL(i) if (p == verif_blk##i && i < verif_pool_n) { __CPROVER_assert(!verif_pool_freed[i], "operator delete: block deleted twice"); verif_pool_freed[i] = 1; found = 1; }
  VERIF_POOL_DEL(0) VERIF_POOL_DEL(1) VERIF_POOL_DEL(2) VERIF_POOL_DEL(3) VERIF_POOL_DEL(4) VERIF_POOL_DEL(5) VERIF_POOL_DEL(6) VERIF_POOL_DEL(7)
  VERIF_POOL_DEL(8) VERIF_POOL_DEL(9) VERIF_POOL_DEL(10) VERIF_POOL_DEL(11) VERIF_POOL_DEL(12) VERIF_POOL_DEL(13) VERIF_POOL_DEL(14) VERIF_POOL_DEL(15)
  __CPROVER_assert(found, "operator delete: pointer was not returned by operator new");
#ifdef VERIF_NEW_POOL_LIFO
  /* opt-in (gen_defs 'VERIF_NEW_POOL_LIFO'): deleting the most recently allocated block gives it back (stack discipline), the next
   * operator new returns the same block again. A temporary container that lives for one loop iteration then leaves the
   * allocation counter unchanged, so paths that ran different numbers of iterations still agree on all heap pointers.
   * The reused block keeps its old bytes (reads of uninitialised operator-new memory see stale data, not arbitrary data). */
  if (found && verif_pool_n > 0 && p == verif_blks[verif_pool_n - 1]) {
    verif_pool_freed[verif_pool_n - 1] = 0; verif_pool_n--;
    /* blocks below that were deleted earlier (out of stack order) are given back as well */
#define VERIF_POOL_POP if (verif_pool_n > 0 && verif_pool_freed[verif_pool_n - 1]) { verif_pool_freed[verif_pool_n - 1] = 0; verif_pool_n--; }
    VERIF_POOL_POP VERIF_POOL_POP VERIF_POOL_POP VERIF_POOL_POP
  }
#endif
}
#elif defined(VERIF_NEW_BLOCK)
/* operator new hands out fixed-size blocks (std::string / std::vector storage): a request above the block size is an
 * assertion failure ("bound"), never silently truncated. Symbolic-size heap objects send CBMC into its array theory. */
/* opt-in (unit gen_defs=['VERIF_NEW_U64']): the block is allocated as uint64_t[VERIF_NEW_BLOCK/8] instead of bytes (same
 * memory; CBMC types the object as an array of words, which stays field-sensitive up to 64 words = new_block 512).
 * opt-in (gen_defs=['VERIF_NEW_ZERO'], with or without VERIF_NEW_U64): the block is zero-filled. CBMC's
 * symbolic execution constant-folds reads from a heap object only when its content is concrete; with zero-filled word
 * blocks the pointer/size members of std::string / std::vector / the container shims fold and loops over them stop at
 * their real bound (measured: Arguments(1 token) 200k steps + solver out of memory -> 6k steps, 1 s). The price is part of
 * the claim of every unit that uses it: behaviour that depends on READING UNINITIALISED operator-new memory is not
 * explored (the model shows zeros). State it in spec.ASSUMPTIONS. */
#ifdef VERIF_NEW_U64
#define VERIF_NEW_WORDS ((VERIF_NEW_BLOCK + 7) / 8)
#define VERIF_NEW_MALLOC() ((uint8_t*)malloc(sizeof(uint64_t) * VERIF_NEW_WORDS))
#else
#define VERIF_NEW_MALLOC() malloc(VERIF_NEW_BLOCK)
#endif
#if defined(VERIF_NEW_ZERO)
#if VERIF_NEW_BLOCK > 512
#error "VERIF_NEW_ZERO supports new_block <= 512"
#endif
/* straight-line (no loop: --unwind applies to every loop). Without VERIF_NEW_U64 the fill is byte-wise: together with
 * cbmc --max-field-sensitivity-array-size 512 every byte of the block is its own SSA symbol, so a concrete byte next to
 * symbolic ones (std::string SSO buffers) still folds; word blocks only fold whole words. */
#ifdef VERIF_NEW_U64
#define VERIF_ZN VERIF_NEW_WORDS
#define VERIF_ZT uint64_t
#else
#define VERIF_ZN VERIF_NEW_BLOCK
#define VERIF_ZT uint8_t
#endif
#define VERIF_Z1(i) if ((i) < VERIF_ZN) w[(i)] = 0;
#define VERIF_Z8(i) VERIF_Z1(i) VERIF_Z1(i + 1) VERIF_Z1(i + 2) VERIF_Z1(i + 3) VERIF_Z1(i + 4) VERIF_Z1(i + 5) VERIF_Z1(i + 6) VERIF_Z1(i + 7)
#define VERIF_Z64(i) VERIF_Z8(i) VERIF_Z8(i + 8) VERIF_Z8(i + 16) VERIF_Z8(i + 24) VERIF_Z8(i + 32) VERIF_Z8(i + 40) VERIF_Z8(i + 48) VERIF_Z8(i + 56)
static void verif_new_fill(uint8_t* p) {
  VERIF_ZT* w = (VERIF_ZT*)p;
  VERIF_Z64(0)
#ifndef VERIF_NEW_U64
  VERIF_Z64(64) VERIF_Z64(128) VERIF_Z64(192) VERIF_Z64(256) VERIF_Z64(320) VERIF_Z64(384) VERIF_Z64(448)
#endif
}
#else
#define verif_new_fill(p) ((void)0)
#endif
/* opt-in (unit gen_defs=['VERIF_NEW_BLOCK_SMALL=k']): two size classes. A request of at most k bytes gets a k-byte block,
 * a larger one the VERIF_NEW_BLOCK block (both malloc sizes are constants). For units where a few objects are huge (the
 * 16 KiB std::string blocks of read_all) and all others tiny: without it every vector/string storage is a huge array. */
#ifdef VERIF_NEW_BLOCK_SMALL
#define VERIF_NEW_SMALL(n) if ((n) <= VERIF_NEW_BLOCK_SMALL) { uint8_t* q = malloc(VERIF_NEW_BLOCK_SMALL); __CPROVER_assume(q != 0); return q; }
#else
#define VERIF_NEW_SMALL(n)
#endif
static uint8_t* verif_new(uint64_t n) { __CPROVER_assert(n <= VERIF_NEW_BLOCK, "BOUND: operator new request exceeds VERIF_NEW_BLOCK"); __CPROVER_assume(n <= VERIF_NEW_BLOCK); VERIF_NEW_SMALL(n) uint8_t* p = VERIF_NEW_MALLOC(); __CPROVER_assume(p != 0); verif_new_fill(p); return p; }
#define verif_delete(p) free(p)
#else
static uint8_t* verif_new(uint64_t n) { uint8_t* p = malloc(n); __CPROVER_assume(p != 0); return p; }
#define verif_delete(p) free(p)
#endif
uint8_t* X__Znwm(uint64_t n) { return verif_new(n); }
uint8_t* X__Znam(uint64_t n) { return verif_new(n); }
void X__ZdlPv(uint8_t* p) { verif_delete(p); }
void X__ZdlPvm(uint8_t* p, uint64_t n) { (void)n; verif_delete(p); }
void X__ZdaPv(uint8_t* p) { verif_delete(p); }
void X__ZdaPvm(uint8_t* p, uint64_t n) { (void)n; verif_delete(p); }
uint8_t* X_malloc(uint64_t n) { uint8_t* p = malloc(n); __CPROVER_assume(p != 0); return p; }
uint8_t* X_calloc(uint64_t a, uint64_t b) { uint8_t* p = calloc(a, b); __CPROVER_assume(p != 0); return p; }
uint8_t* X_realloc(uint8_t* q, uint64_t n) { uint8_t* p = realloc(q, n); __CPROVER_assume(p != 0); return p; }
void X_free(uint8_t* p) { free(p); }

/* exception objects: allocated, message dropped */
#ifdef VERIF_EXC_POOL
/* opt-in (gen_defs=['VERIF_EXC_POOL=<n>']): exception objects come from a static pool of n slots instead of malloc, so that
 * cbmc --memory-leak-check reports only allocations made by the code under test (the model never destroys a caught exception
 * object). Pool exhaustion / oversize object is a reported bound failure. */
static uint64_t verif_exc_pool[VERIF_EXC_POOL][16]; static uint32_t verif_exc_pool_n;
uint8_t* X___cxa_allocate_exception(uint64_t n) {
  __CPROVER_assert(n <= sizeof(verif_exc_pool[0]) && verif_exc_pool_n < VERIF_EXC_POOL, "BOUND: exception pool (VERIF_EXC_POOL slots of 128 bytes)");
  __CPROVER_assume(n <= sizeof(verif_exc_pool[0]) && verif_exc_pool_n < VERIF_EXC_POOL);
  return (uint8_t*)verif_exc_pool[verif_exc_pool_n++];
}
void X___cxa_free_exception(uint8_t* p) { (void)p; }
#else
uint8_t* X___cxa_allocate_exception(uint64_t n) { uint8_t* p = malloc(n ? n : 1); __CPROVER_assume(p != 0); return p; }
void X___cxa_free_exception(uint8_t* p) { free(p); }
#endif
/* std exception objects carry a valid vptr (Itanium layout: [-2] offset-to-top, [-1] typeinfo, [0] D1, [1] D0, [2] what) so
 * that `catch (const std::exception& e) { e.what(); }` works in the model; what() text is the fixed string "what". */
uint8_t* verif_std_exc_what(uint8_t* self) { (void)self; return (uint8_t*)"what"; }
void verif_std_exc_dtor(uint8_t* self) { (void)self; }
verif_fn_t verif_std_exc_vtable[5] = {0, 0, (verif_fn_t)verif_std_exc_dtor, (verif_fn_t)verif_std_exc_dtor, (verif_fn_t)verif_std_exc_what};
static verif_fn_t* verif_std_exc_obj[4] = {&verif_std_exc_vtable[2], 0, 0, 0}; /* object thrown by the __throw_* models */
#define EXC_CTOR_CSTR(m) void X_##m(uint8_t* self, uint8_t* msg) { (void)msg; *(verif_fn_t**)self = &verif_std_exc_vtable[2]; }
#define EXC_DTOR(m) void X_##m(uint8_t* self) { (void)self; }
EXC_CTOR_CSTR(_ZNSt16invalid_argumentC1EPKc) EXC_CTOR_CSTR(_ZNSt12out_of_rangeC1EPKc) EXC_CTOR_CSTR(_ZNSt13runtime_errorC1EPKc)
EXC_CTOR_CSTR(_ZNSt11logic_errorC1EPKc) EXC_CTOR_CSTR(_ZNSt12length_errorC1EPKc) EXC_CTOR_CSTR(_ZNSt12domain_errorC1EPKc)
EXC_CTOR_CSTR(_ZNSt13runtime_errorC2EPKc) EXC_CTOR_CSTR(_ZNSt11logic_errorC2EPKc) EXC_CTOR_CSTR(_ZNSt12out_of_rangeC2EPKc)
EXC_CTOR_CSTR(_ZNSt16invalid_argumentC2EPKc) EXC_CTOR_CSTR(_ZNSt11range_errorC1EPKc) EXC_CTOR_CSTR(_ZNSt14overflow_errorC1EPKc)
EXC_CTOR_CSTR(_ZNSt13runtime_errorC1ERKNSt7__cxx1112basic_stringIcSt11char_traitsIcESaIcEEE)
EXC_CTOR_CSTR(_ZNSt13runtime_errorC2ERKNSt7__cxx1112basic_stringIcSt11char_traitsIcESaIcEEE)
EXC_CTOR_CSTR(_ZNSt11logic_errorC1ERKNSt7__cxx1112basic_stringIcSt11char_traitsIcESaIcEEE)
EXC_CTOR_CSTR(_ZNSt11logic_errorC2ERKNSt7__cxx1112basic_stringIcSt11char_traitsIcESaIcEEE)
EXC_CTOR_CSTR(_ZNSt12out_of_rangeC1ERKNSt7__cxx1112basic_stringIcSt11char_traitsIcESaIcEEE)
EXC_CTOR_CSTR(_ZNSt12out_of_rangeC2ERKNSt7__cxx1112basic_stringIcSt11char_traitsIcESaIcEEE)
EXC_CTOR_CSTR(_ZNSt16invalid_argumentC1ERKNSt7__cxx1112basic_stringIcSt11char_traitsIcESaIcEEE)
EXC_CTOR_CSTR(_ZNSt16invalid_argumentC2ERKNSt7__cxx1112basic_stringIcSt11char_traitsIcESaIcEEE)
EXC_CTOR_CSTR(_ZNSt13runtime_errorC2ERKS_) EXC_CTOR_CSTR(_ZNSt13runtime_errorC1ERKS_)
EXC_CTOR_CSTR(_ZNSt11logic_errorC2ERKS_) EXC_CTOR_CSTR(_ZNSt11logic_errorC1ERKS_)
EXC_DTOR(_ZNSt16invalid_argumentD1Ev) EXC_DTOR(_ZNSt12out_of_rangeD1Ev) EXC_DTOR(_ZNSt13runtime_errorD1Ev) EXC_DTOR(_ZNSt11logic_errorD1Ev)
EXC_DTOR(_ZNSt16invalid_argumentD2Ev) EXC_DTOR(_ZNSt12out_of_rangeD2Ev) EXC_DTOR(_ZNSt13runtime_errorD2Ev) EXC_DTOR(_ZNSt11logic_errorD2Ev)
EXC_DTOR(_ZNSt12length_errorD1Ev) EXC_DTOR(_ZNSt12domain_errorD1Ev) EXC_DTOR(_ZNSt9exceptionD2Ev) EXC_DTOR(_ZNSt9exceptionD1Ev)
EXC_DTOR(_ZNSt9bad_allocD1Ev) EXC_DTOR(_ZNSt9bad_allocD2Ev) EXC_DTOR(_ZNSt11range_errorD1Ev) EXC_DTOR(_ZNSt14overflow_errorD1Ev)
EXC_DTOR(_ZNSt20bad_array_new_lengthD1Ev) EXC_DTOR(_ZNSt17bad_function_callD1Ev) EXC_DTOR(_ZNSt17bad_function_callD2Ev)
uint8_t* X__ZNKSt13runtime_error4whatEv(uint8_t* self) { (void)self; return (uint8_t*)"what"; }
uint8_t* X__ZNKSt11logic_error4whatEv(uint8_t* self) { (void)self; return (uint8_t*)"what"; }
uint8_t* X__ZNKSt9exception4whatEv(uint8_t* self) { (void)self; return (uint8_t*)"what"; }
uint8_t* X__ZNKSt9bad_alloc4whatEv(uint8_t* self) { (void)self; return (uint8_t*)"what"; }

#define THROW_AS(tid) do { verif_exc_active = 1; verif_exc_ptr = (uint8_t*)verif_std_exc_obj; verif_exc_type = (tid); } while (0)
void X__ZSt20__throw_length_errorPKc(uint8_t* m) { (void)m; THROW_AS(TID__ZTISt12length_error); }
void X__ZSt17__throw_bad_allocv(void) { THROW_AS(TID__ZTISt9bad_alloc); }
void X__ZSt28__throw_bad_array_new_lengthv(void) { THROW_AS(TID__ZTISt20bad_array_new_length); }
void X__ZSt20__throw_out_of_rangePKc(uint8_t* m) { (void)m; THROW_AS(TID__ZTISt12out_of_range); }
void X__ZSt24__throw_out_of_range_fmtPKcz(uint8_t* m, ...) { (void)m; THROW_AS(TID__ZTISt12out_of_range); }
void X__ZSt19__throw_logic_errorPKc(uint8_t* m) { (void)m; THROW_AS(TID__ZTISt11logic_error); }
void X__ZSt24__throw_invalid_argumentPKc(uint8_t* m) { (void)m; THROW_AS(TID__ZTISt16invalid_argument); }
void X__ZSt21__throw_runtime_errorPKc(uint8_t* m) { (void)m; THROW_AS(TID__ZTISt13runtime_error); }
void X__ZSt25__throw_bad_function_callv(void) { THROW_AS(TID__ZTISt17bad_function_call); }
void X__ZSt16__throw_bad_castv(void) { THROW_AS(TID__ZTISt8bad_cast); }
void X__ZSt9terminatev(void) { __CPROVER_assert(0, "std::terminate reached"); __CPROVER_assume(0); }
void X___cxa_pure_virtual(void) { __CPROVER_assert(0, "pure virtual call"); __CPROVER_assume(0); }
void X___clang_call_terminate(uint8_t* p) { (void)p; __CPROVER_assert(0, "std::terminate reached"); __CPROVER_assume(0); }
uint32_t X___gxx_personality_v0() { return 0; }
uint32_t X___cxa_atexit(uint8_t* f, uint8_t* a, uint8_t* d) { (void)f; (void)a; (void)d; return 0; }
uint32_t X___cxa_thread_atexit(uint8_t* f, uint8_t* a, uint8_t* d) { (void)f; (void)a; (void)d; return 0; } /* thread_local destructors: like atexit, never run inside a query */
uint8_t X___dso_handle; /* IR type: external global i8 */
uint32_t X___cxa_guard_acquire(uint8_t* g) { return *g == 0; }
void X___cxa_guard_release(uint8_t* g) { *g = 1; }
void X___cxa_guard_abort(uint8_t* g) { (void)g; }

/* libc string/ctype: C-locale definitions written out */
uint64_t X_strlen(uint8_t* s) { return strlen((char*)s); }
uint32_t X_bcmp(uint8_t* a, uint8_t* b, uint64_t n) { return n ? (uint32_t)memcmp(a, b, n) : 0; }
uint32_t X_memcmp(uint8_t* a, uint8_t* b, uint64_t n) { return n ? (uint32_t)memcmp(a, b, n) : 0; }
uint32_t X_strcmp(uint8_t* a, uint8_t* b) { return (uint32_t)strcmp((char*)a, (char*)b); }
uint8_t* X_memchr(uint8_t* s, uint32_t c, uint64_t n) { for (uint64_t i = 0; i < n; i++) if (s[i] == (uint8_t)c) return s + i; return 0; }
uint8_t* X_strchr(uint8_t* s, uint32_t c) { for (;; s++) { if (*s == (uint8_t)c) return s; if (!*s) return 0; } }
uint32_t X_isxdigit(uint32_t c) { return (c >= '0' && c <= '9') || (c >= 'a' && c <= 'f') || (c >= 'A' && c <= 'F'); }
uint32_t X_isdigit(uint32_t c) { return (c >= '0' && c <= '9'); }
uint32_t X_isalpha(uint32_t c) { return (c >= 'a' && c <= 'z') || (c >= 'A' && c <= 'Z'); }
uint32_t X_isalnum(uint32_t c) { return X_isdigit(c) || X_isalpha(c); }
uint32_t X_isblank(uint32_t c) { return c == ' ' || c == '\t'; }
uint32_t X_isspace(uint32_t c) { return c == ' ' || (c >= 9 && c <= 13); }
uint32_t X_isupper(uint32_t c) { return c >= 'A' && c <= 'Z'; }
uint32_t X_islower(uint32_t c) { return c >= 'a' && c <= 'z'; }
uint32_t X_isprint(uint32_t c) { return c >= 0x20 && c <= 0x7E; }
uint32_t X_toupper(uint32_t c) { return (c >= 'a' && c <= 'z') ? c - 32 : c; }
uint32_t X_tolower(uint32_t c) { return (c >= 'A' && c <= 'Z') ? c + 32 : c; }
uint32_t X_abs(uint32_t v) { return ((int32_t)v < 0) ? (uint32_t)(0 - v) : v; }
static int verif_errno;
uint8_t* X___errno_location(void) { return (uint8_t*)&verif_errno; }

/* ---- atomics: bounded-round (Lal-Reps) sequentialisation of concurrent workers, see DESIGN.md C16 ----
 * Off by default (identity). A harness registers the addresses of the shared atomic words, sets verif_seq_rounds = K and
 * runs the threads one after another; at every atomic access the running thread may move to a later round (a context
 * switch, chosen through verif_seq_choice() so that it is a logged harness input); round r>0 starts from guessed values
 * which verif_seq_end() constrains to equal the values at the end of round r-1. Every sequentially consistent
 * interleaving with at most K-1 context switches per thread corresponds to one solver assignment. */
#if defined(VERIF_ATOMIC_HOOK)
/* opt-in (gen_defs 'VERIF_ATOMIC_HOOK'): the harness defines verif_atomic_addr() itself (props/C16/h_launch.c: the shared
 * words are locals of the code under test, found by address at their first atomic access) */
#elif !defined(VERIF_SEQ)
uint8_t* verif_atomic_addr(uint8_t* p) { return p; }
#else
#ifndef VERIF_SEQ_VARS
#define VERIF_SEQ_VARS 2
#endif
#ifndef VERIF_SEQ_MAXR
#define VERIF_SEQ_MAXR 8
#endif
uint8_t* verif_seq_var[VERIF_SEQ_VARS];
uint64_t verif_seq_copy[VERIF_SEQ_MAXR][VERIF_SEQ_VARS];
uint64_t verif_seq_guess[VERIF_SEQ_MAXR][VERIF_SEQ_VARS];
uint32_t verif_seq_rounds = 1, verif_seq_round, verif_seq_on, verif_seq_ops;
uint64_t verif_seq_choice(void); /* harness: logged nondeterministic round advance */
uint64_t verif_seq_value(void); /* harness: logged nondeterministic 64-bit guess */
uint8_t* verif_atomic_addr(uint8_t* p) {
  if (!verif_seq_on) return p;
  if (verif_seq_rounds > 1) {
    uint64_t adv = verif_seq_choice();
    __CPROVER_assume(adv < verif_seq_rounds && verif_seq_round + adv < verif_seq_rounds);
    verif_seq_round += (uint32_t)adv;
  }
  verif_seq_ops++;
  for (int i = 0; i < VERIF_SEQ_VARS; i++)
    if (p == verif_seq_var[i]) return (uint8_t*)&verif_seq_copy[verif_seq_round][i];
  __CPROVER_assert(0, "H: atomic access to an address that is not a registered shared word");
  return p;
}
void verif_seq_begin(void) {
  __CPROVER_assert(verif_seq_rounds >= 1 && verif_seq_rounds <= VERIF_SEQ_MAXR, "BOUND: rounds");
  for (int i = 0; i < VERIF_SEQ_VARS; i++) {
    verif_seq_copy[0][i] = *(uint64_t*)verif_seq_var[i];
    for (uint32_t r = 1; r < verif_seq_rounds; r++) verif_seq_copy[r][i] = verif_seq_guess[r][i] = verif_seq_value();
  }
  verif_seq_on = 1;
}
void verif_seq_thread_start(void) { verif_seq_round = 0; verif_seq_ops = 0; }
void verif_seq_end(void) {
  for (int i = 0; i < VERIF_SEQ_VARS; i++) {
    for (uint32_t r = 0; r + 1 < verif_seq_rounds; r++) __CPROVER_assume(verif_seq_copy[r][i] == verif_seq_guess[r + 1][i]);
    *(uint64_t*)verif_seq_var[i] = verif_seq_copy[verif_seq_rounds - 1][i];
  }
  verif_seq_on = 0;
}
#endif /* VERIF_SEQ */

/* ---- libm: exact bit-level models of the exponent-extraction functions (IEEE-754 binary64/binary32) ---- */
uint32_t X_ilogb(double x) {
  uint64_t b; memcpy(&b, &x, 8);
  uint32_t e = (uint32_t)((b >> 52) & 0x7FF); uint64_t m = b & 0xFFFFFFFFFFFFFULL;
  if (e == 0x7FF) return m ? 0x80000000u /* FP_ILOGBNAN */ : 0x7FFFFFFFu;
  if (e == 0) { if (!m) return 0x80000000u /* FP_ILOGB0 */; uint32_t k = 0; for (int i = 51; i >= 0; i--) { if ((m >> i) & 1) break; k++; } return (uint32_t)(-1023 - (int32_t)k); }
  return (uint32_t)((int32_t)e - 1023);
}
uint32_t X_ilogbf(float x) {
  uint32_t b; memcpy(&b, &x, 4);
  uint32_t e = (b >> 23) & 0xFF, m = b & 0x7FFFFF;
  if (e == 0xFF) return m ? 0x80000000u : 0x7FFFFFFFu;
  if (e == 0) { if (!m) return 0x80000000u; uint32_t k = 0; for (int i = 22; i >= 0; i--) { if ((m >> i) & 1) break; k++; } return (uint32_t)(-127 - (int32_t)k); }
  return (uint32_t)((int32_t)e - 127);
}
