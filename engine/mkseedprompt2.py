#!/usr/bin/env python3
"""Round-N seed prompts: like mkseedprompt.py but lists the earlier seeds' triggers so the new agent produces different ones.
usage: mkseedprompt2.py <tag> <pid>...   -> worktree /tmp/<tag>_<pid>, prompt /tmp/<tag>_prompt_<pid>.txt"""
import json, subprocess, glob, sys
tmpl = open('/verif/docs/seed_prompt.txt').read()
props = {json.loads(l)['id']: json.loads(l) for l in open('/verif/properties.jsonl')}
tag = sys.argv[1]
for pid in sys.argv[2:]:
    p = props[pid]
    wt = '/tmp/%s_%s' % (tag, pid)
    subprocess.run(['git', '-C', '/repo', 'worktree', 'add', '--detach', wt, 'HEAD', '-q'])
    s = tmpl.format(WT=wt, PID=pid, TITLE=p['title'], STATEMENT=p['statement'], QUANT=p['quantifier']['text'], FILES=', '.join(p['anchors']['files']), N=3)
    prev = []
    for m in sorted(glob.glob('/verif/seeded/%s-*/meta.json' % pid)):
        d = json.load(open(m)); prev.append('- %s: %s' % (d['name'], d['needs_to_manifest']))
    if prev:
        s += ("\n\nAn earlier round already produced these mutations for this property; yours must be DIFFERENT (other functions / other clauses of the "
              "statement / other mechanisms), do not repeat them:\n" + '\n'.join(prev) + "\n")
    open('/tmp/%s_prompt_%s.txt' % (tag, pid), 'w').write(s)
    print('prepared', pid, wt)
